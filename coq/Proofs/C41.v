(** C41 — proofs about Model/Auth.v (native auth contract). *)
From Coq Require Import List Bool NArith Lia ZifyN ZifyBool.
Import ListNotations.
From Ont Require Import Lib.Bytes Gen.AuthConsts Model.Auth Model.AuthSpec.
Local Open Scope N_scope.
Open Scope bool_scope.

(** * Meaning of the regenerated conditions (these are the proofs a changed operator breaks). *)
Lemma vt_token_expired_spec e n : vt_token_expired e n = true <-> e < n.
Proof. unfold vt_token_expired. apply N.ltb_lt. Qed.
Lemma vt_deleg_expired_spec e n : vt_deleg_expired e n = true <-> e < n.
Proof. unfold vt_deleg_expired. apply N.ltb_lt. Qed.
Lemma gat_deleg_live_spec n e : gat_deleg_live n e = true <-> n < e.
Proof. unfold gat_deleg_live. apply N.ltb_lt. Qed.
Lemma del_allowed_spec l fl e fe : del_allowed l fl e fe = true <-> l < fl /\ 0 < l /\ e < fe.
Proof. unfold del_allowed. rewrite !andb_true_iff, !N.ltb_lt. tauto. Qed.
Lemma del_overflow_spec p n : p < 4294967296 -> n < 4294967296 ->
  (del_overflow p n = false <-> n + p < 4294967296).
Proof.
  intros Hp Hn. unfold del_overflow. rewrite N.ltb_ge. split; intro H.
  - destruct (N.lt_ge_cases (n + p) 4294967296) as [L|G]; [exact L|exfalso].
    assert (E : (p + n) mod 4294967296 = p + n - 4294967296).
    { rewrite <- (N.mod_small (p + n - 4294967296) 4294967296) by lia.
      replace (p + n) with ((p + n - 4294967296) + 1 * 4294967296) at 1 by lia.
      apply N.mod_add. discriminate. }
    lia.
  - rewrite N.mod_small by lia. lia.
Qed.
Lemma del_param_too_large_spec l p : del_param_too_large l p = false <-> l <= 127 /\ p <= 4294967295.
Proof. unfold del_param_too_large. rewrite orb_false_iff, !N.ltb_ge. tauto. Qed.
Lemma del_entry_ok_of_param l p : l <= 127 -> p <= 4294967295 -> del_entry_too_large p l = false.
Proof. intros. unfold del_entry_too_large. rewrite orb_false_iff, !N.ltb_ge. lia. Qed.
Lemma admin_level_can_delegate : ADMIN_TOKEN_LEVEL = DELEGATOR_LEVEL.
Proof. reflexivity. Qed.

(** * Maps, byte strings *)
Lemma bytes_eqb_refl a : bytes_eqb a a = true.
Proof. apply bytes_eqb_eq; reflexivity. Qed.
Lemma bytes_eqb_neq a b : bytes_eqb a b = false <-> a <> b.
Proof.
  split.
  - intros H E. apply bytes_eqb_eq in E. congruence.
  - intro H. destruct (bytes_eqb a b) eqn:E; [apply bytes_eqb_eq in E; contradiction|reflexivity].
Qed.
Lemma bytes_eq_dec (a b : bytes) : {a = b} + {a <> b}.
Proof. destruct (bytes_eqb a b) eqn:E; [left; apply bytes_eqb_eq; exact E|right; apply bytes_eqb_neq; exact E]. Qed.

Lemma key_eqb_eq a b : key_eqb a b = true <-> a = b.
Proof.
  destruct a as [a1 a2], b as [b1 b2]. unfold key_eqb; simpl.
  rewrite andb_true_iff, !bytes_eqb_eq. split; [intros [-> ->]; reflexivity|intro H; inversion H; auto].
Qed.
Lemma key_eqb_refl a : key_eqb a a = true.
Proof. apply key_eqb_eq; reflexivity. Qed.
Lemma key_eqb_neq a b : a <> b -> key_eqb a b = false.
Proof. intro H. destruct (key_eqb a b) eqn:E; [apply key_eqb_eq in E; contradiction|reflexivity]. Qed.
Lemma key_eq_dec (a b : key) : {a = b} + {a <> b}.
Proof. destruct (key_eqb a b) eqn:E; [left; apply key_eqb_eq; exact E|right; intro H; apply key_eqb_eq in H; congruence]. Qed.

Lemma fput_same {V} (m : fmap V) k v : fput m k v k = Some v.
Proof. unfold fput. rewrite key_eqb_refl. reflexivity. Qed.
Lemma fput_other {V} (m : fmap V) k v k' : k' <> k -> fput m k v k' = m k'.
Proof. intro H. unfold fput. rewrite key_eqb_neq by exact H. reflexivity. Qed.

Lemma bytes_cmp_eq a b : bytes_cmp a b = Eq <-> a = b.
Proof.
  revert b; induction a as [|x a IH]; intros [|y b]; simpl; split; intro H; try reflexivity; try discriminate.
  - destruct (N.compare x y) eqn:C; try discriminate. apply N.compare_eq in C. apply IH in H. subst; reflexivity.
  - inversion H; subst. rewrite N.compare_refl. apply IH; reflexivity.
Qed.

Lemma In_ins_uniq x f l : In x (ins_uniq f l) <-> x = f \/ In x l.
Proof.
  induction l as [|g l IH]; simpl.
  - intuition.
  - destruct (bytes_cmp f g) eqn:C; simpl.
    + apply bytes_cmp_eq in C; subst. intuition.
    + intuition.
    + rewrite IH. intuition.
Qed.

Lemma In_dedup_sort x l : In x (dedup_sort l) <-> In x l /\ x <> [].
Proof.
  unfold dedup_sort. induction l as [|f l IH]; simpl.
  - tauto.
  - destruct f as [|b f']; simpl.
    + rewrite IH. split; [intros [H1 H2]; split; auto|intros [[H|H] H2]; [congruence|auto]].
    + rewrite In_ins_uniq, IH. split.
      * intros [->|[H1 H2]]; split; auto; discriminate.
      * intros [[H|H] H2]; [left; auto|right; auto].
Qed.

Lemma contains_func_spec fs fn : contains_func fs fn = true <-> In fn fs.
Proof.
  unfold contains_func. rewrite existsb_exists. split.
  - intros [x [Hx E]]. apply bytes_eqb_eq in E; subst; exact Hx.
  - intro H. exists fn. split; [exact H|apply bytes_eqb_refl].
Qed.

(** First match of a key that is unique in the list. *)
Lemma find_unique {A} (f : A -> bytes) (l : list A) (d : A) :
  NoDup (map f l) -> In d l -> find (fun x => bytes_eqb (f x) (f d)) l = Some d.
Proof.
  induction l as [|x l IH]; simpl; intros ND Hin; [contradiction|].
  inversion ND as [|? ? Hnot ND']; subst.
  destruct Hin as [->|Hin].
  - rewrite bytes_eqb_refl. reflexivity.
  - destruct (bytes_eqb (f x) (f d)) eqn:E.
    + apply bytes_eqb_eq in E. exfalso. apply Hnot. rewrite E. apply in_map. exact Hin.
    + apply IH; assumption.
Qed.

Lemma find_role_some (l : list dstat) r d :
  find (fun x => bytes_eqb (d_role x) r) l = Some d -> In d l /\ d_role d = r.
Proof. intro H. apply find_some in H. destruct H as [H1 H2]. apply bytes_eqb_eq in H2. auto. Qed.

(** * verifyToken on an invariant state (T1) *)
Lemma fn_assigned_spec s c r f :
  fn_assigned s c r f = true <-> exists fs, get_role_func s c r = Some fs /\ In f fs.
Proof.
  unfold fn_assigned. destruct (get_role_func s c r) as [fs|].
  - rewrite contains_func_spec. split; [intro H; exists fs; auto|intros [fs' [E H]]; inversion E; subst; exact H].
  - split; [discriminate|intros [fs [E _]]; discriminate].
Qed.

Lemma holds_direct_spec s c id r :
  holds_direct s c id r = true <-> exists t, In t (opt_list (s_tokens s (c, id))) /\ t_role t = r.
Proof.
  unfold holds_direct. rewrite existsb_exists. unfold tok_has_role.
  split; intros [t [H1 H2]]; exists t; split; auto; apply bytes_eqb_eq; exact H2.
Qed.

Lemma inv_tokens s c id t : Inv s -> In t (opt_list (s_tokens s (c, id))) ->
  t_expire t = AUTH_FUTURE /\ t_level t = ADMIN_TOKEN_LEVEL.
Proof.
  intros [I1 _] H. destruct (s_tokens s (c, id)) as [ts|] eqn:E; simpl in H; [|contradiction].
  specialize (I1 _ _ _ E). unfold tokens_ok in I1. rewrite Forall_forall in I1. apply I1; exact H.
Qed.

Lemma inv_delegs s c id : Inv s -> delegs_ok s c (opt_list (s_deleg s (c, id))).
Proof.
  intros [_ I2]. destruct (s_deleg s (c, id)) as [ds|] eqn:E; simpl.
  - apply (I2 _ _ _ E).
  - split; constructor.
Qed.

Lemma deleg_of_in s c id d : Inv s -> In d (opt_list (s_deleg s (c, id))) -> deleg_of s c id (d_role d) = Some d.
Proof.
  intros I H. unfold deleg_of. apply (find_unique d_role); [apply (inv_delegs s c id I)|exact H].
Qed.

Lemma deleg_of_some s c id r d : deleg_of s c id r = Some d ->
  In d (opt_list (s_deleg s (c, id))) /\ d_role d = r.
Proof. unfold deleg_of. apply find_role_some. Qed.

Lemma verify_token_state s e c caller fn k : Inv s ->
  (verify_token s e c caller fn k = RTrue <->
   e_sig e caller k = SigOk /\
   exists r, fn_assigned s c r fn = true /\
     ((holds_direct s c caller r = true /\ e_now e <= AUTH_FUTURE) \/
      (exists d, deleg_of s c caller r = Some d /\ e_now e <= d_expire d))).
Proof.
  intro I. unfold verify_token.
  destruct (e_sig e caller k); try (split; [discriminate|intros [H _]; discriminate]).
  split.
  - intro H. split; [reflexivity|].
    destruct (existsb (tok_grants s (e_now e) c fn) (opt_list (s_tokens s (c, caller)))) eqn:E1.
    + apply existsb_exists in E1. destruct E1 as [t [Ht G]]. unfold tok_grants in G.
      destruct (get_role_func s c (t_role t)) as [fs|] eqn:EF; [|discriminate].
      apply andb_true_iff in G. destruct G as [G1 G2].
      exists (t_role t). split.
      * apply fn_assigned_spec. exists fs. split; [exact EF|apply contains_func_spec; exact G2].
      * left. split; [apply holds_direct_spec; exists t; auto|].
        destruct (inv_tokens s c caller t I Ht) as [Ex _]. rewrite Ex in G1.
        apply negb_true_iff in G1. destruct (N.le_gt_cases (e_now e) AUTH_FUTURE) as [L|G]; [exact L|].
        apply vt_token_expired_spec in G. congruence.
    + destruct (existsb (del_grants s (e_now e) c fn) (opt_list (s_deleg s (c, caller)))) eqn:E2; [|discriminate].
      apply existsb_exists in E2. destruct E2 as [d [Hd G]]. unfold del_grants in G.
      destruct (get_role_func s c (d_role d)) as [fs|] eqn:EF; [|discriminate].
      apply andb_true_iff in G. destruct G as [G1 G2].
      exists (d_role d). split.
      * apply fn_assigned_spec. exists fs. split; [exact EF|apply contains_func_spec; exact G2].
      * right. exists d. split; [apply deleg_of_in; assumption|].
        apply negb_true_iff in G1. destruct (N.le_gt_cases (e_now e) (d_expire d)) as [L|G]; [exact L|].
        apply vt_deleg_expired_spec in G. congruence.
  - intros [_ [r [HF HR]]]. apply fn_assigned_spec in HF. destruct HF as [fs [EF HF]].
    destruct HR as [[HD HN]|[d [HD HN]]].
    + apply holds_direct_spec in HD. destruct HD as [t [Ht Er]].
      assert (G : existsb (tok_grants s (e_now e) c fn) (opt_list (s_tokens s (c, caller))) = true).
      { apply existsb_exists. exists t. split; [exact Ht|]. unfold tok_grants. rewrite Er, EF.
        apply andb_true_iff. split; [|apply contains_func_spec; exact HF].
        destruct (inv_tokens s c caller t I Ht) as [Ex _]. rewrite Ex.
        apply negb_true_iff. destruct (vt_token_expired AUTH_FUTURE (e_now e)) eqn:V; [|reflexivity].
        apply vt_token_expired_spec in V. lia. }
      rewrite G. reflexivity.
    + apply deleg_of_some in HD. destruct HD as [Hd Er].
      assert (G : existsb (del_grants s (e_now e) c fn) (opt_list (s_deleg s (c, caller))) = true).
      { apply existsb_exists. exists d. split; [exact Hd|]. unfold del_grants. rewrite Er, EF.
        apply andb_true_iff. split; [|apply contains_func_spec; exact HF].
        apply negb_true_iff. destruct (vt_deleg_expired (d_expire d) (e_now e)) eqn:V; [|reflexivity].
        apply vt_deleg_expired_spec in V. lia. }
      rewrite G. destruct (existsb (tok_grants s (e_now e) c fn) (opt_list (s_tokens s (c, caller)))); reflexivity.
Qed.

(** * getAuthToken in terms of the observers *)
Lemma find_none_iff {A} (f : A -> bool) l : find f l = None <-> forall x, In x l -> f x = false.
Proof.
  induction l as [|y l IH]; simpl.
  - split; [intros _ x []|reflexivity].
  - destruct (f y) eqn:E.
    + split; [discriminate|]. intro H. specialize (H y (or_introl eq_refl)). congruence.
    + rewrite IH. split; [intros H x [->|Hx]; auto|intros H x Hx; apply H; right; exact Hx].
Qed.

Lemma holds_direct_false s c id r :
  holds_direct s c id r = false <-> find (tok_has_role r) (opt_list (s_tokens s (c, id))) = None.
Proof.
  unfold holds_direct. rewrite find_none_iff. split.
  - intros H x Hx. destruct (tok_has_role r x) eqn:E; [|reflexivity].
    assert (existsb (tok_has_role r) (opt_list (s_tokens s (c, id))) = true) by (apply existsb_exists; eauto). congruence.
  - intro H. destruct (existsb _ _) eqn:E; [|reflexivity]. apply existsb_exists in E. destruct E as [x [Hx Ex]].
    rewrite (H x Hx) in Ex. discriminate.
Qed.

Lemma find_live_none s now c id r : Inv s ->
  (find (del_live_role now r) (opt_list (s_deleg s (c, id))) = None <-> ~ deleg_running s now c id r).
Proof.
  intro I. rewrite find_none_iff. unfold deleg_running. split.
  - intros H [d [E L]]. apply deleg_of_some in E. destruct E as [Hd Er].
    specialize (H d Hd). unfold del_live_role in H. rewrite Er, bytes_eqb_refl in H. simpl in H.
    apply gat_deleg_live_spec in L. congruence.
  - intros H d Hd. unfold del_live_role. destruct (bytes_eqb (d_role d) r) eqn:E; [|reflexivity]. simpl.
    destruct (gat_deleg_live now (d_expire d)) eqn:L; [|reflexivity]. exfalso. apply H.
    apply bytes_eqb_eq in E. exists d. split; [rewrite <- E; apply deleg_of_in; assumption|apply gat_deleg_live_spec; exact L].
Qed.

Lemma gat_none s now c id r : Inv s ->
  (get_auth_token s now c id r = None <-> holds_direct s c id r = false /\ ~ deleg_running s now c id r).
Proof.
  intro I. unfold get_auth_token. rewrite holds_direct_false, <- (find_live_none s now c id r I).
  destruct (find (tok_has_role r) _) eqn:E1.
  - split; [discriminate|intros [H _]; discriminate].
  - destruct (find (del_live_role now r) _) eqn:E2.
    + split; [discriminate|intros [_ H]; discriminate].
    + tauto.
Qed.

Lemma gat_some_cases s now c id r t : Inv s -> get_auth_token s now c id r = Some t ->
  (holds_direct s c id r = true /\ t_expire t = AUTH_FUTURE /\ t_level t = ADMIN_TOKEN_LEVEL) \/
  (holds_direct s c id r = false /\ t_level t < DELEGATOR_LEVEL).
Proof.
  intros I H. unfold get_auth_token in H.
  destruct (find (tok_has_role r) (opt_list (s_tokens s (c, id)))) as [t0|] eqn:E1.
  - inversion H; subst t0. apply find_some in E1. destruct E1 as [Hin Hr]. left.
    destruct (inv_tokens s c id t I Hin) as [A B]. repeat split; auto.
    apply holds_direct_spec. exists t. split; [exact Hin|apply bytes_eqb_eq; exact Hr].
  - right. split; [apply holds_direct_false; exact E1|].
    destruct (find (del_live_role now r) (opt_list (s_deleg s (c, id)))) as [d|] eqn:E2; [|discriminate].
    inversion H; subst t. apply find_some in E2. destruct E2 as [Hin _].
    destruct (inv_delegs s c id I) as [_ F]. rewrite Forall_forall in F. apply (F d Hin).
Qed.

Lemma gat_direct s now c id r : Inv s -> holds_direct s c id r = true ->
  exists t, get_auth_token s now c id r = Some t /\ t_expire t = AUTH_FUTURE /\ t_level t = ADMIN_TOKEN_LEVEL.
Proof.
  intros I H. destruct (get_auth_token s now c id r) as [t|] eqn:E.
  - exists t. split; [reflexivity|]. destruct (gat_some_cases s now c id r t I E) as [[_ [A B]]|[A _]]; [auto|congruence].
  - apply gat_none in E; [|exact I]. destruct E as [E _]. congruence.
Qed.

(** * Effects of the setters on the observers *)
Lemma holds_direct_ext s s' c id r : s_tokens s' (c, id) = s_tokens s (c, id) -> holds_direct s' c id r = holds_direct s c id r.
Proof. intro H. unfold holds_direct. rewrite H. reflexivity. Qed.
Lemma deleg_of_ext s s' c id r : s_deleg s' (c, id) = s_deleg s (c, id) -> deleg_of s' c id r = deleg_of s c id r.
Proof. intro H. unfold deleg_of. rewrite H. reflexivity. Qed.
Lemma fn_assigned_ext s s' c r f : s_funcs s' (c, r) = s_funcs s (c, r) -> fn_assigned s' c r f = fn_assigned s c r f.
Proof. intro H. unfold fn_assigned, get_role_func. rewrite H. reflexivity. Qed.

Lemma deleg_running_ext s s' now c id r : s_deleg s' (c, id) = s_deleg s (c, id) ->
  (deleg_running s' now c id r <-> deleg_running s now c id r).
Proof. intro H. unfold deleg_running. rewrite (deleg_of_ext s s' c id r H). tauto. Qed.

Lemma blocked_ext s s' now c id r : s_deleg s' (c, id) = s_deleg s (c, id) -> s_tokens s' (c, id) = s_tokens s (c, id) ->
  (blocked s' now c id r <-> blocked s now c id r).
Proof.
  intros H1 H2. unfold blocked. rewrite (holds_direct_ext s s' c id r H2), (deleg_running_ext s s' now c id r H1).
  unfold has_token_record. rewrite H2. tauto.
Qed.

(** * One step: acceptance conditions and effects *)
Lemma is_nil_false r : is_nil r = false <-> r <> [].
Proof. destruct r; simpl; split; intro H; congruence. Qed.

(* goal shape: (X = RTrue <-> P) /\ (X = RTrue -> Q) *)
Ltac refused :=
  split; [split; [discriminate|let H := fresh in intro H; exfalso; decompose [and ex] H; clear H; subst; try congruence]|discriminate].
Ltac granted := split; [split; [intros _|reflexivity]|intros _; try reflexivity].

Section StepLemmas.
Variable valid_id : bytes -> bool.
Notation stp := (step valid_id).

Lemma init_accept s e c a : ev_op e = OInit c a ->
  (fst (stp s e) = RTrue <-> valid_id a = true /\ admin_of s c = None) /\
  (fst (stp s e) = RTrue -> snd (stp s e) = set_admin s c a).
Proof.
  intro E. unfold step. rewrite E. unfold init_admin, admin_of.
  destruct (valid_id a); simpl; [|refused].
  destruct (get_admin s c); simpl; [refused|granted; auto].
Qed.

Lemma transfer_accept s e c a k : ev_op e = OTransfer c a k ->
  (fst (stp s e) = RTrue <-> valid_id a = true /\ exists a0, admin_of s c = Some a0 /\ ev_sig e a0 k = SigOk) /\
  (fst (stp s e) = RTrue -> snd (stp s e) = set_admin s c a).
Proof.
  intro E. unfold step. rewrite E. unfold transfer, admin_of, ev_sig.
  destruct (valid_id a); simpl; [|refused].
  destruct (get_admin s c) as [a0|]; simpl; [|refused].
  destruct (e_sig (ev_env e) a0 k) eqn:S; simpl; [granted; repeat split; eauto|refused|refused].
Qed.

Lemma admin_check s e c a k :
  (exists a0, get_admin s c = Some a0 /\ bytes_eqb a0 a = true /\ e_sig (ev_env e) a k = SigOk) <-> admin_proved s e c a k.
Proof.
  unfold admin_proved, admin_of, ev_sig. split.
  - intros [a0 [H1 [H2 H3]]]. apply bytes_eqb_eq in H2. subst. auto.
  - intros [H1 H2]. exists a. rewrite bytes_eqb_refl. auto.
Qed.

Lemma funcs_accept s e c a r fns k : ev_op e = OAssignFuncs c a r fns k ->
  (fst (stp s e) = RTrue <-> r <> [] /\ admin_proved s e c a k) /\
  (fst (stp s e) = RTrue -> snd (stp s e) = set_funcs s (c, r) (dedup_sort (opt_list (get_role_func s c r) ++ fns))).
Proof.
  intro E. unfold step. rewrite E. unfold assign_funcs. rewrite <- admin_check, <- is_nil_false.
  destruct (is_nil r); simpl; [refused|].
  destruct (get_admin s c) as [a0|]; simpl; [|refused].
  destruct (bytes_eqb a0 a) eqn:B; simpl; [|refused].
  destruct (e_sig (ev_env e) a k) eqn:S; simpl; [granted; repeat split; eauto|refused|refused].
Qed.

Lemma all_valid_spec ps : existsb (fun p => negb (valid_id p)) ps = false <-> forall p, In p ps -> valid_id p = true.
Proof.
  induction ps as [|q ps IH]; simpl.
  - split; [intros _ p []|reflexivity].
  - rewrite orb_false_iff, IH, negb_false_iff. split.
    + intros [H1 H2] p [->|Hp]; auto.
    + intro H. split; [apply H; left; reflexivity|intros p Hp; apply H; right; exact Hp].
Qed.

Lemma ids_accept s e c a r ps k : ev_op e = OAssignIds c a r ps k ->
  (fst (stp s e) = RTrue <-> r <> [] /\ (forall p, In p ps -> valid_id p = true) /\ admin_proved s e c a k) /\
  (fst (stp s e) = RTrue -> snd (stp s e) = fold_left (assign_one (ev_now e) c r) ps s).
Proof.
  intro E. unfold step. rewrite E. unfold assign_ids. rewrite <- admin_check, <- is_nil_false, <- all_valid_spec.
  destruct (is_nil r); simpl; [refused|].
  destruct (existsb (fun p => negb (valid_id p)) ps); simpl; [refused|].
  destruct (get_admin s c) as [a0|]; simpl; [|refused].
  destruct (bytes_eqb a0 a) eqn:B; simpl; [|refused].
  destruct (e_sig (ev_env e) a k) eqn:S; simpl; [granted; repeat split; eauto|refused|refused].
Qed.

Lemma delegate_guard s e c from to r period lvl k : e_now e < 4294967296 ->
  fst (delegate valid_id s e c from to r period lvl k) = RTrue ->
  lvl <= 127 /\ period <= 4294967295 /\ e_now e + period < 4294967296.
Proof.
  intros Hn. unfold delegate.
  destruct (del_param_too_large lvl period) eqn:P; [discriminate|].
  apply del_param_too_large_spec in P. destruct P as [P1 P2].
  rewrite (del_entry_ok_of_param lvl period P1 P2).
  rewrite (N.mod_small period 4294967296) by lia.
  destruct (del_overflow period (e_now e)) eqn:O; [discriminate|].
  apply del_overflow_spec in O; [|lia|exact Hn]. intros _. auto.
Qed.

Lemma delegate_result s e c from to r period lvl k :
  e_now e < 4294967296 -> lvl <= 127 -> period <= 4294967295 -> e_now e + period < 4294967296 ->
  delegate valid_id s e c from to r period lvl k =
  match e_sig e from k with
  | SigErr => (RErr, s)
  | SigFalse => (RFalse, s)
  | SigOk =>
      if negb (valid_id to) then (RErr, s) else
      match get_auth_token s (e_now e) c from r, get_auth_token s (e_now e) c to r with
      | Some ft, None =>
          if (t_level ft =? DELEGATOR_LEVEL) && del_allowed lvl (t_level ft) (e_now e + period) (t_expire ft)
          then (RTrue, set_deleg s (c, to) (upd_status r from lvl (e_now e + period) (opt_list (s_deleg s (c, to)))))
          else (RFalse, s)
      | _, _ => (RFalse, s)
      end
  end.
Proof.
  intros Hn H1 H2 H3. unfold delegate.
  assert (P : del_param_too_large lvl period = false) by (apply del_param_too_large_spec; auto).
  rewrite P, (del_entry_ok_of_param lvl period H1 H2).
  rewrite (N.mod_small period 4294967296) by lia.
  rewrite (N.mod_small lvl 256) by lia.
  assert (O : del_overflow period (e_now e) = false) by (apply del_overflow_spec; lia).
  rewrite O. rewrite (N.mod_small (e_now e + period) 4294967296) by lia. reflexivity.
Qed.

Lemma delegate_accept s e c from to r period lvl k : Inv s -> ev_now e < 4294967296 ->
  ev_op e = ODelegate c from to r period lvl k ->
  (fst (stp s e) = RTrue <-> ev_delegate valid_id s e c from to r (ev_now e + period) lvl) /\
  (fst (stp s e) = RTrue -> snd (stp s e) =
     set_deleg s (c, to) (upd_status r from lvl (ev_now e + period) (opt_list (s_deleg s (c, to))))).
Proof.
  intros I Hn E. unfold step. rewrite E. unfold ev_now in *.
  assert (G : fst (delegate valid_id s (ev_env e) c from to r period lvl k) = RTrue ->
          ev_delegate valid_id s e c from to r (e_now (ev_env e) + period) lvl /\
          snd (delegate valid_id s (ev_env e) c from to r period lvl k) =
            set_deleg s (c, to) (upd_status r from lvl (e_now (ev_env e) + period) (opt_list (s_deleg s (c, to))))).
  { intro H. destruct (delegate_guard s (ev_env e) c from to r period lvl k Hn H) as [G1 [G2 G3]].
    rewrite (delegate_result s (ev_env e) c from to r period lvl k Hn G1 G2 G3) in *.
    destruct (e_sig (ev_env e) from k) eqn:S; try discriminate.
    destruct (valid_id to) eqn:V; simpl in *; try discriminate.
    destruct (get_auth_token s (e_now (ev_env e)) c from r) as [ft|] eqn:GF; try discriminate.
    destruct (get_auth_token s (e_now (ev_env e)) c to r) as [tt|] eqn:GT; try discriminate.
    destruct ((t_level ft =? DELEGATOR_LEVEL) && del_allowed lvl (t_level ft) (e_now (ev_env e) + period) (t_expire ft)) eqn:C; try discriminate.
    split; [|reflexivity].
    apply andb_true_iff in C. destruct C as [C1 C2]. apply N.eqb_eq in C1. apply del_allowed_spec in C2.
    destruct C2 as [L1 [L2 L3]].
    apply (gat_none s _ c to r I) in GT. destruct GT as [T1 T2].
    destruct (gat_some_cases s _ c from r ft I GF) as [[F1 [F2 F3]]|[F1 F2]]; [|lia].
    exists period, k. unfold ev_now, ev_sig. rewrite C1 in L1. rewrite F2 in L3.
    repeat split; auto. }
  split; [split|]; [apply G| |apply G].
  intros (period' & k' & E' & G1 & G2 & G3 & S & V & F & T1 & T2 & L1 & L2 & X1 & X2).
  rewrite E in E'. inversion E'; subst period' k'. unfold ev_now, ev_sig in *.
  rewrite (delegate_result s (ev_env e) c from to r period lvl k Hn G1 G2 G3).
  rewrite S, V. simpl.
  destruct (gat_direct s (e_now (ev_env e)) c from r I F) as [ft [GF [F2 F3]]]. rewrite GF.
  assert (GT : get_auth_token s (e_now (ev_env e)) c to r = None) by (apply gat_none; auto).
  rewrite GT. rewrite F3, F2, admin_level_can_delegate, N.eqb_refl. simpl.
  assert (C : del_allowed lvl DELEGATOR_LEVEL (e_now (ev_env e) + period) AUTH_FUTURE = true).
  { apply del_allowed_spec. repeat split; auto. }
  rewrite C. reflexivity.
Qed.
End StepLemmas.

(** * List surgery used by delegate / withdraw *)
Lemma remove_first_none {A} (f : A -> bool) l : remove_first f l = None <-> forall x, In x l -> f x = false.
Proof.
  induction l as [|y l IH]; simpl.
  - split; [intros _ x []|reflexivity].
  - destruct (f y) eqn:E.
    + split; [discriminate|]. intro H. specialize (H y (or_introl eq_refl)). congruence.
    + destruct (remove_first f l) eqn:R; simpl.
      * split; [discriminate|]. intro H. assert (X : Some l0 = None) by (apply IH; intros x Hx; apply H; right; exact Hx). discriminate X.
      * split; [|reflexivity]. intros _ x [->|Hx]; [exact E|]. apply IH; [reflexivity|exact Hx].
Qed.

Lemma remove_first_some {A} (f : A -> bool) l l' : remove_first f l = Some l' ->
  exists l1 x l2, l = l1 ++ x :: l2 /\ f x = true /\ l' = l1 ++ l2.
Proof.
  revert l'; induction l as [|y l IH]; simpl; intros l' H; [discriminate|].
  destruct (f y) eqn:E.
  - inversion H; subst. exists [], y, l'. auto.
  - destruct (remove_first f l) as [l0|] eqn:R; simpl in H; [|discriminate]. inversion H; subst.
    destruct (IH l0 eq_refl) as [l1 [x [l2 [Ha [Hb Hc]]]]]. subst. exists (y :: l1), x, l2. auto.
Qed.

Lemma find_app {A} (f : A -> bool) l1 l2 :
  find f (l1 ++ l2) = match find f l1 with Some x => Some x | None => find f l2 end.
Proof. induction l1 as [|x l1 IH]; simpl; [reflexivity|]. destruct (f x); [reflexivity|exact IH]. Qed.

Definition has_role (r : bytes) (d : dstat) : bool := bytes_eqb (d_role d) r.

Lemma find_role_none l r : find (has_role r) l = None <-> ~ In r (map d_role l).
Proof.
  unfold has_role. rewrite find_none_iff. rewrite in_map_iff. split.
  - intros H [d [E Hd]]. specialize (H d Hd). rewrite E, bytes_eqb_refl in H. discriminate.
  - intros H d Hd. apply bytes_eqb_neq. intro E. apply H. exists d. auto.
Qed.

(** removing the record with role [r] from a list with distinct roles *)
Lemma find_removed l1 d l2 r' : NoDup (map d_role (l1 ++ d :: l2)) ->
  find (has_role r') (l1 ++ l2) = if bytes_eqb (d_role d) r' then None else find (has_role r') (l1 ++ d :: l2).
Proof.
  intro ND. rewrite map_app in ND. simpl in ND. apply NoDup_remove in ND. destruct ND as [ND Hn].
  destruct (bytes_eqb (d_role d) r') eqn:E.
  - apply bytes_eqb_eq in E. subst r'. apply find_role_none. rewrite map_app. exact Hn.
  - rewrite !find_app. simpl. assert (X : has_role r' d = false) by (unfold has_role; exact E). rewrite X. reflexivity.
Qed.

Lemma nodup_removed {A} (l1 : list A) x l2 : NoDup (l1 ++ x :: l2) -> NoDup (l1 ++ l2).
Proof. intro H. apply NoDup_remove in H. tauto. Qed.

(** upd_status *)
Lemma upd_status_map r from lvl exp l :
  map d_role (upd_status r from lvl exp l) =
  if existsb (has_role r) l then map d_role l else map d_role l ++ [r].
Proof.
  induction l as [|d l IH]; simpl; [reflexivity|]. unfold has_role at 1.
  destruct (bytes_eqb (d_role d) r) eqn:E; simpl; [reflexivity|]. rewrite IH.
  destruct (existsb (has_role r) l); reflexivity.
Qed.

Lemma upd_status_nodup r from lvl exp l : NoDup (map d_role l) -> NoDup (map d_role (upd_status r from lvl exp l)).
Proof.
  intro ND. rewrite upd_status_map. destruct (existsb (has_role r) l) eqn:E; [exact ND|].
  assert (Hn : ~ In r (map d_role l)).
  { intro H. apply in_map_iff in H. destruct H as [d [Er Hd]].
    assert (existsb (has_role r) l = true) by (apply existsb_exists; exists d; split; [exact Hd|unfold has_role; rewrite Er; apply bytes_eqb_refl]).
    congruence. }
  clear E. induction l as [|d l IH]; simpl in *.
  - constructor; [intros []|constructor].
  - inversion ND; subst. constructor.
    + rewrite in_app_iff. simpl. intros [H|[H|[]]]; [contradiction|]. apply Hn. left. auto.
    + apply IH; auto.
Qed.

Lemma upd_status_in r from lvl exp l d : In d (upd_status r from lvl exp l) ->
  In d l \/ d = mkDel from (mkTok r exp lvl).
Proof.
  induction l as [|x l IH]; simpl.
  - intros [H|[]]; right; auto.
  - destruct (bytes_eqb (d_role x) r) eqn:E; simpl.
    + intros [H|H]; [right; apply bytes_eqb_eq in E; rewrite E in H; auto|left; right; exact H].
    + intros [H|H]; [left; left; exact H|]. destruct (IH H); [left; right; assumption|right; assumption].
Qed.

Lemma upd_status_find r from lvl exp l r' :
  find (has_role r') (upd_status r from lvl exp l) =
  if bytes_eqb r r' then Some (mkDel from (mkTok r exp lvl)) else find (has_role r') l.
Proof.
  induction l as [|x l IH]; simpl.
  - unfold has_role, d_role; simpl. destruct (bytes_eqb r r'); reflexivity.
  - destruct (bytes_eqb (d_role x) r) eqn:E; simpl.
    + apply bytes_eqb_eq in E. unfold has_role, d_role in *; simpl. rewrite E.
      destruct (bytes_eqb r r'); reflexivity.
    + unfold has_role in *. destruct (bytes_eqb (d_role x) r') eqn:E2.
      * apply bytes_eqb_eq in E2. subst r'. rewrite (proj2 (bytes_eqb_neq r (d_role x))); [reflexivity|].
        intro H. rewrite H, bytes_eqb_refl in E. discriminate.
      * exact IH.
Qed.

Section StepLemmas2.
Variable valid_id : bytes -> bool.
Notation stp := (step valid_id).

Lemma deleg_of_find s c id r : deleg_of s c id r = find (has_role r) (opt_list (s_deleg s (c, id))).
Proof. reflexivity. Qed.

(** delegate, unconditional on the time: what an accepted call stores. *)
Lemma delegate_effect s e c from to r period lvl k : Inv s ->
  fst (delegate valid_id s e c from to r period lvl k) = RTrue ->
  exists lvl' exp',
    0 < lvl' /\ lvl' < DELEGATOR_LEVEL /\ exp' < AUTH_FUTURE /\ holds_direct s c from r = true /\
    snd (delegate valid_id s e c from to r period lvl k) =
      set_deleg s (c, to) (upd_status r from lvl' exp' (opt_list (s_deleg s (c, to)))).
Proof.
  intros I. unfold delegate.
  destruct (del_param_too_large lvl period); [discriminate|].
  destruct (del_entry_too_large period lvl); [discriminate|].
  destruct (del_overflow (period mod 4294967296) (e_now e)); [discriminate|].
  destruct (e_sig e from k); try discriminate.
  destruct (negb (valid_id to)); [discriminate|].
  destruct (get_auth_token s (e_now e) c from r) as [ft|] eqn:GF; [|discriminate].
  destruct (get_auth_token s (e_now e) c to r); [discriminate|].
  destruct ((t_level ft =? DELEGATOR_LEVEL) && _) eqn:C; [|discriminate].
  intros _. apply andb_true_iff in C. destruct C as [C1 C2]. apply N.eqb_eq in C1. apply del_allowed_spec in C2.
  destruct C2 as [L1 [L2 L3]].
  destruct (gat_some_cases s _ c from r ft I GF) as [[F1 [F2 F3]]|[F1 F2]]; [|lia].
  eexists _, _. simpl. repeat split; [exact L2|rewrite C1 in L1; exact L1|rewrite F2 in L3; exact L3|exact F1].
Qed.

Lemma withdraw_accept s e c init id r k : Inv s -> ev_op e = OWithdraw c init id r k ->
  (fst (stp s e) = RTrue <-> ev_sig e init k = SigOk /\ exists d, deleg_of s c id r = Some d /\ d_root d = init) /\
  (fst (stp s e) = RTrue ->
     exists l1 d l2, opt_list (s_deleg s (c, id)) = l1 ++ d :: l2 /\ d_role d = r /\
                     snd (stp s e) = set_deleg s (c, id) (l1 ++ l2)).
Proof.
  intros I E. unfold step. rewrite E. unfold withdraw, ev_sig.
  set (f := fun d : dstat => bytes_eqb (d_role d) r && bytes_eqb (d_root d) init).
  destruct (e_sig (ev_env e) init k) eqn:S; simpl; [|refused|refused].
  destruct (get_auth_token s (e_now (ev_env e)) c init r) as [it|] eqn:G; simpl.
  - destruct (s_deleg s (c, id)) as [l|] eqn:D; simpl.
    + destruct (remove_first f l) as [l'|] eqn:R; simpl.
      * apply remove_first_some in R. destruct R as [l1 [d [l2 [A [B C]]]]].
        unfold f in B. apply andb_true_iff in B. destruct B as [B1 B2]. apply bytes_eqb_eq in B1, B2.
        split; [split; [intros _; split; [reflexivity|]|reflexivity]|intros _].
        -- exists d. split; [|exact B2]. rewrite <- B1. apply deleg_of_in; [exact I|]. rewrite D. simpl. rewrite A. apply in_elt.
        -- exists l1, d, l2. subst. auto.
      * split; [split; [discriminate|]|discriminate]. intros [_ [d [H1 H2]]]. exfalso.
        apply deleg_of_some in H1. destruct H1 as [H1 H3]. rewrite D in H1. simpl in H1.
        rewrite remove_first_none in R. specialize (R d H1). unfold f in R. rewrite H3, H2, !bytes_eqb_refl in R. discriminate.
    + split; [split; [discriminate|]|discriminate]. intros [_ [d [H1 H2]]]. exfalso.
      apply deleg_of_some in H1. destruct H1 as [H1 _]. rewrite D in H1. exact H1.
  - split; [split; [discriminate|]|discriminate]. intros [_ [d [H1 H2]]]. exfalso.
    apply deleg_of_some in H1. destruct H1 as [H1 H3].
    destruct (inv_delegs s c id I) as [_ F]. rewrite Forall_forall in F. destruct (F d H1) as [_ [_ [_ HD]]].
    rewrite H2, H3 in HD. destruct (gat_direct s (e_now (ev_env e)) c init r I HD) as [t [GT _]]. congruence.
Qed.
End StepLemmas2.

(** * assignToRole: one person, then the loop *)
Definition new_tok (r : bytes) : token := mkTok r AUTH_FUTURE ADMIN_TOKEN_LEVEL.

Lemma assign_one_other now c r s p k : k <> (c, p) -> s_tokens (assign_one now c r s p) k = s_tokens s k.
Proof.
  intro H. unfold assign_one. destruct (s_tokens s (c, p)); [destruct (get_auth_token s now c p r)|]; simpl;
    try reflexivity; apply fput_other; exact H.
Qed.

Lemma assign_one_deleg now c r s p : s_deleg (assign_one now c r s p) = s_deleg s.
Proof. unfold assign_one. destruct (s_tokens s (c, p)); [destruct (get_auth_token s now c p r)|]; reflexivity. Qed.
Lemma assign_one_funcs now c r s p : s_funcs (assign_one now c r s p) = s_funcs s.
Proof. unfold assign_one. destruct (s_tokens s (c, p)); [destruct (get_auth_token s now c p r)|]; reflexivity. Qed.
Lemma assign_one_admin now c r s p : s_admin (assign_one now c r s p) = s_admin s.
Proof. unfold assign_one. destruct (s_tokens s (c, p)); [destruct (get_auth_token s now c p r)|]; reflexivity. Qed.

(** at the person's own key: either unchanged (blocked, or the role is already held), or the
    new token is appended *)
Lemma assign_one_self now c r s p : Inv s ->
  (blocked s now c p r /\ s_tokens (assign_one now c r s p) (c, p) = s_tokens s (c, p)) \/
  (holds_direct s c p r = true /\ s_tokens (assign_one now c r s p) (c, p) = s_tokens s (c, p)) \/
  (~ blocked s now c p r /\ holds_direct s c p r = false /\
   s_tokens (assign_one now c r s p) (c, p) = Some (opt_list (s_tokens s (c, p)) ++ [new_tok r])).
Proof.
  intro I. unfold assign_one.
  destruct (s_tokens s (c, p)) as [ts|] eqn:T.
  - destruct (get_auth_token s now c p r) as [t|] eqn:G.
    + destruct (gat_some_cases s now c p r t I G) as [[H _]|[H _]].
      * right; left. split; [exact H|exact T].
      * left. split; [|exact T]. unfold blocked, has_token_record. rewrite T. repeat split; auto.
        destruct (gat_none s now c p r I) as [_ X].
        destruct (find_live_none s now c p r I) as [_ Y].
        unfold get_auth_token in G. apply holds_direct_false in H. rewrite H in G.
        destruct (find (del_live_role now r) (opt_list (s_deleg s (c, p)))) as [d|] eqn:F; [|discriminate].
        apply find_some in F. destruct F as [F1 F2]. unfold del_live_role in F2. apply andb_true_iff in F2.
        destruct F2 as [F2 F3]. apply bytes_eqb_eq in F2. exists d. split.
        -- rewrite <- F2. apply deleg_of_in; assumption.
        -- apply gat_deleg_live_spec. exact F3.
    + apply (gat_none s now c p r I) in G. destruct G as [G1 G2]. right; right.
      repeat split; auto.
      * intros [_ [_ B]]. contradiction.
      * simpl. rewrite fput_same. reflexivity.
  - right; right. repeat split.
    + intros [B _]. unfold has_token_record in B. rewrite T in B. discriminate.
    + unfold holds_direct. rewrite T. reflexivity.
    + simpl. rewrite fput_same. reflexivity.
Qed.

Lemma holds_direct_app s s' c id r extra :
  s_tokens s' (c, id) = Some (opt_list (s_tokens s (c, id)) ++ extra) ->
  holds_direct s' c id r = holds_direct s c id r || existsb (tok_has_role r) extra.
Proof. intro H. unfold holds_direct. rewrite H. simpl. apply existsb_app. Qed.

Lemma assign_one_direct now c r s p c' id' r' : Inv s ->
  (holds_direct (assign_one now c r s p) c' id' r' = true <->
   holds_direct s c' id' r' = true \/ (c' = c /\ id' = p /\ r' = r /\ ~ blocked s now c p r)).
Proof.
  intro I. destruct (key_eq_dec (c', id') (c, p)) as [E|NE].
  - inversion E; subst c' id'.
    destruct (assign_one_self now c r s p I) as [[B T]|[[H T]|[NB [H T]]]].
    + rewrite (holds_direct_ext _ _ _ _ _ T). split; [auto|intros [X|[_ [_ [_ X]]]]; [exact X|contradiction]].
    + rewrite (holds_direct_ext _ _ _ _ _ T). split; [auto|intros [X|[_ [_ [X _]]]]; [exact X|subst; exact H]].
    + rewrite (holds_direct_app _ _ _ _ _ _ T). simpl. rewrite orb_false_r, orb_true_iff. unfold tok_has_role, new_tok. simpl.
      rewrite bytes_eqb_eq. split; [intros [X|X]; [left; exact X|right; auto]|intros [X|[_ [_ [X _]]]]; auto].
  - rewrite (holds_direct_ext s _ c' id' r' (assign_one_other now c r s p (c', id') NE)).
    split; [auto|intros [X|[A [B _]]]; [exact X|subst; contradiction]].
Qed.

Lemma tokens_ok_app ts r : tokens_ok ts -> tokens_ok (ts ++ [new_tok r]).
Proof. intro H. apply Forall_app. split; [exact H|]. constructor; [split; reflexivity|constructor]. Qed.

Lemma tokens_ok_opt s c id : Inv s -> tokens_ok (opt_list (s_tokens s (c, id))).
Proof.
  intros [I1 _]. destruct (s_tokens s (c, id)) as [ts|] eqn:E; simpl; [apply (I1 _ _ _ E)|constructor].
Qed.

Lemma assign_one_mono now c r s p c' id' r' : Inv s ->
  holds_direct s c' id' r' = true -> holds_direct (assign_one now c r s p) c' id' r' = true.
Proof. intros I H. apply assign_one_direct; auto. Qed.

Lemma assign_one_inv now c r s p : Inv s -> Inv (assign_one now c r s p).
Proof.
  intro I. split.
  - intros c' id' ts H. destruct (key_eq_dec (c', id') (c, p)) as [E|NE].
    + inversion E; subst c' id'.
      destruct (assign_one_self now c r s p I) as [[_ T]|[[_ T]|[_ [_ T]]]]; rewrite T in H.
      * destruct I as [I1 _]. apply (I1 _ _ _ H).
      * destruct I as [I1 _]. apply (I1 _ _ _ H).
      * inversion H; subst ts. apply tokens_ok_app. apply tokens_ok_opt. exact I.
    + rewrite (assign_one_other now c r s p (c', id') NE) in H. destruct I as [I1 _]. apply (I1 _ _ _ H).
  - intros c' id' ds H. rewrite assign_one_deleg in H. destruct I as [I1 I2].
    destruct (I2 _ _ _ H) as [ND F]. split; [exact ND|].
    rewrite Forall_forall in *. intros d Hd. destruct (F d Hd) as [A [B [C D]]]. repeat split; auto.
    apply assign_one_mono; [split; assumption|exact D].
Qed.

Lemma assign_fold_inv now c r ps s : Inv s -> Inv (fold_left (assign_one now c r) ps s).
Proof. revert s; induction ps as [|p ps IH]; simpl; intros s I; [exact I|]. apply IH. apply assign_one_inv. exact I. Qed.

Lemma assign_fold_deleg now c r ps s : s_deleg (fold_left (assign_one now c r) ps s) = s_deleg s.
Proof. revert s; induction ps as [|p ps IH]; simpl; intro s; [reflexivity|]. rewrite IH. apply assign_one_deleg. Qed.
Lemma assign_fold_funcs now c r ps s : s_funcs (fold_left (assign_one now c r) ps s) = s_funcs s.
Proof. revert s; induction ps as [|p ps IH]; simpl; intro s; [reflexivity|]. rewrite IH. apply assign_one_funcs. Qed.
Lemma assign_fold_admin now c r ps s : s_admin (fold_left (assign_one now c r) ps s) = s_admin s.
Proof. revert s; induction ps as [|p ps IH]; simpl; intro s; [reflexivity|]. rewrite IH. apply assign_one_admin. Qed.

Lemma assign_fold_direct now c r ps s c' id' r' : Inv s ->
  (holds_direct (fold_left (assign_one now c r) ps s) c' id' r' = true <->
   holds_direct s c' id' r' = true \/ (c' = c /\ r' = r /\ In id' ps /\ ~ blocked s now c id' r)).
Proof.
  revert s; induction ps as [|p ps IH]; simpl; intros s I.
  - split; [auto|intros [H|[_ [_ [[] _]]]]; exact H].
  - rewrite (IH _ (assign_one_inv now c r s p I)), (assign_one_direct now c r s p c' id' r' I).
    assert (BE : forall q, q <> p -> (blocked (assign_one now c r s p) now c q r <-> blocked s now c q r)).
    { intros q Hq. apply blocked_ext; [rewrite assign_one_deleg; reflexivity|].
      apply assign_one_other. intro X; inversion X; contradiction. }
    split.
    + intros [[H|[A [B [C D]]]]|[A [B [C D]]]].
      * left; exact H.
      * right. subst. auto.
      * subst c' r'. destruct (bytes_eq_dec id' p) as [->|NE].
        -- destruct (assign_one_self now c r s p I) as [[BL T]|[[H T]|[NB _]]].
           ++ exfalso. apply D. apply (blocked_ext s); [rewrite assign_one_deleg; reflexivity|exact T|exact BL].
           ++ left; exact H.
           ++ right; auto.
        -- right. repeat split; auto. intro X. apply D. apply BE; assumption.
    + intros [H|[A [B [[C|C] D]]]].
      * left; left; exact H.
      * subst. left; right; auto.
      * subst c' r'. destruct (bytes_eq_dec id' p) as [->|NE].
        -- left; right; auto.
        -- right. repeat split; auto. intro X. apply D. apply BE; assumption.
Qed.

(** * The invariant holds in every reachable state *)
Lemma res_true_dec (r : res) : {r = RTrue} + {r <> RTrue}.
Proof. destruct r; [left; reflexivity|right; discriminate|right; discriminate]. Qed.

Lemma inv_same_tokens_deleg s s' : s_tokens s' = s_tokens s -> s_deleg s' = s_deleg s -> Inv s -> Inv s'.
Proof.
  intros HT HD [I1 I2]. split.
  - intros c id ts H. rewrite HT in H. apply (I1 _ _ _ H).
  - intros c id ds H. rewrite HD in H. destruct (I2 _ _ _ H) as [ND F]. split; [exact ND|].
    rewrite Forall_forall in *. intros d Hd. destruct (F d Hd) as [A [B [C D]]]. repeat split; auto.
    unfold holds_direct in *. rewrite HT. exact D.
Qed.

Lemma inv_set_deleg s c id l : Inv s -> delegs_ok s c l -> Inv (set_deleg s (c, id) l).
Proof.
  intros [I1 I2] H. split.
  - intros c' id' ts E. simpl in E. apply (I1 _ _ _ E).
  - intros c' id' ds E. simpl in E. unfold fput in E.
    destruct (key_eqb (c', id') (c, id)) eqn:K.
    + apply key_eqb_eq in K. inversion K; subst. inversion E; subst. exact H.
    + apply (I2 _ _ _ E).
Qed.

Lemma init_state_inv : Inv init_state.
Proof. split; intros c id x H; discriminate. Qed.

Section StepInv.
Variable valid_id : bytes -> bool.
Notation stp := (step valid_id).

Lemma step_refused_same s e : fst (stp s e) <> RTrue -> snd (stp s e) = s.
Proof.
  unfold step. destruct (ev_op e); simpl; try reflexivity;
    unfold init_admin, transfer, assign_funcs, assign_ids, delegate, withdraw;
    repeat match goal with
           | |- context [match ?x with _ => _ end] => destruct x eqn:?
           end; simpl; intro H; try reflexivity; exfalso; apply H; reflexivity.
Qed.

Lemma step_inv s e : Inv s -> Inv (snd (stp s e)).
Proof.
  intro I. destruct (res_true_dec (fst (stp s e))) as [A|NA]; [|rewrite (step_refused_same s e NA); exact I].
  destruct (ev_op e) as [c a|c a k|c a r fns k|c a r ps k|c f t r p l k|c i d r k|c cid cfn k] eqn:E.
  - rewrite (proj2 (init_accept valid_id s e c a E) A). apply (inv_same_tokens_deleg s); auto.
  - rewrite (proj2 (transfer_accept valid_id s e c a k E) A). apply (inv_same_tokens_deleg s); auto.
  - rewrite (proj2 (funcs_accept valid_id s e c a r fns k E) A). apply (inv_same_tokens_deleg s); auto.
  - rewrite (proj2 (ids_accept valid_id s e c a r ps k E) A). apply assign_fold_inv. exact I.
  - unfold step in *. rewrite E in *.
    destruct (delegate_effect valid_id s (ev_env e) c f t r p l k I A) as [lvl' [exp' [L1 [L2 [L3 [HD EQ]]]]]].
    rewrite EQ. apply inv_set_deleg; [exact I|].
    destruct (inv_delegs s c t I) as [ND F]. split; [apply upd_status_nodup; exact ND|].
    rewrite Forall_forall in *. intros d Hd. apply upd_status_in in Hd. destruct Hd as [Hd|Hd]; [apply F; exact Hd|subst d].
    unfold d_level, d_expire, d_root, d_role; simpl. auto.
  - destruct (proj2 (withdraw_accept valid_id s e c i d r k I E) A) as [l1 [x [l2 [EL [ER EQ]]]]].
    rewrite EQ. apply inv_set_deleg; [exact I|].
    destruct (inv_delegs s c d I) as [ND F]. rewrite EL in ND, F. split.
    + rewrite map_app in *. simpl in ND. apply nodup_removed in ND. exact ND.
    + apply Forall_app in F. destruct F as [F1 F2]. inversion F2; subst. apply Forall_app. split; assumption.
  - unfold step. rewrite E. exact I.
Qed.

Lemma run_from_inv h s : Inv s -> Inv (run_from valid_id s h).
Proof. revert s; induction h as [|e h IH]; simpl; intros s I; [exact I|]. apply IH. apply step_inv. exact I. Qed.

Lemma run_inv h : Inv (run valid_id h).
Proof. apply run_from_inv. apply init_state_inv. Qed.

Lemma run_snoc h e : run valid_id (h ++ [e]) = snd (stp (run valid_id h) e).
Proof. unfold run, run_from. rewrite fold_left_app. reflexivity. Qed.

End StepInv.

(** * How one event changes each observer *)
Section StepObs.
Variable valid_id : bytes -> bool.
Notation stp := (step valid_id).

(** which stored families an accepted operation can touch *)
Lemma step_funcs_same s e : Inv s -> (forall c a r fns k, ev_op e <> OAssignFuncs c a r fns k) ->
  s_funcs (snd (stp s e)) = s_funcs s.
Proof.
  intros I H. destruct (res_true_dec (fst (stp s e))) as [A|NA]; [|rewrite (step_refused_same valid_id s e NA); reflexivity].
  destruct (ev_op e) as [c a|c a k|c a r fns k|c a r ps k|c f t r p l k|c i d r k|c cid cfn k] eqn:E.
  - rewrite (proj2 (init_accept valid_id s e c a E) A). reflexivity.
  - rewrite (proj2 (transfer_accept valid_id s e c a k E) A). reflexivity.
  - exfalso. apply (H c a r fns k). reflexivity.
  - rewrite (proj2 (ids_accept valid_id s e c a r ps k E) A). apply assign_fold_funcs.
  - unfold step in *. rewrite E in *.
    destruct (delegate_effect valid_id s (ev_env e) c f t r p l k I A) as [lvl' [exp' [_ [_ [_ [_ EQ]]]]]]. rewrite EQ. reflexivity.
  - destruct (proj2 (withdraw_accept valid_id s e c i d r k I E) A) as [l1 [x [l2 [_ [_ EQ]]]]]. rewrite EQ. reflexivity.
  - unfold step. rewrite E. reflexivity.
Qed.

Lemma step_tokens_same s e : Inv s -> (forall c a r ps k, ev_op e <> OAssignIds c a r ps k) ->
  s_tokens (snd (stp s e)) = s_tokens s.
Proof.
  intros I H. destruct (res_true_dec (fst (stp s e))) as [A|NA]; [|rewrite (step_refused_same valid_id s e NA); reflexivity].
  destruct (ev_op e) as [c a|c a k|c a r fns k|c a r ps k|c f t r p l k|c i d r k|c cid cfn k] eqn:E.
  - rewrite (proj2 (init_accept valid_id s e c a E) A). reflexivity.
  - rewrite (proj2 (transfer_accept valid_id s e c a k E) A). reflexivity.
  - rewrite (proj2 (funcs_accept valid_id s e c a r fns k E) A). reflexivity.
  - exfalso. apply (H c a r ps k). reflexivity.
  - unfold step in *. rewrite E in *.
    destruct (delegate_effect valid_id s (ev_env e) c f t r p l k I A) as [lvl' [exp' [_ [_ [_ [_ EQ]]]]]]. rewrite EQ. reflexivity.
  - destruct (proj2 (withdraw_accept valid_id s e c i d r k I E) A) as [l1 [x [l2 [_ [_ EQ]]]]]. rewrite EQ. reflexivity.
  - unfold step. rewrite E. reflexivity.
Qed.

Lemma step_deleg_same s e : Inv s ->
  (forall c f t r p l k, ev_op e <> ODelegate c f t r p l k) -> (forall c i d r k, ev_op e <> OWithdraw c i d r k) ->
  s_deleg (snd (stp s e)) = s_deleg s.
Proof.
  intros I H1 H2. destruct (res_true_dec (fst (stp s e))) as [A|NA]; [|rewrite (step_refused_same valid_id s e NA); reflexivity].
  destruct (ev_op e) as [c a|c a k|c a r fns k|c a r ps k|c f t r p l k|c i d r k|c cid cfn k] eqn:E.
  - rewrite (proj2 (init_accept valid_id s e c a E) A). reflexivity.
  - rewrite (proj2 (transfer_accept valid_id s e c a k E) A). reflexivity.
  - rewrite (proj2 (funcs_accept valid_id s e c a r fns k E) A). reflexivity.
  - rewrite (proj2 (ids_accept valid_id s e c a r ps k E) A). apply assign_fold_deleg.
  - exfalso. apply (H1 c f t r p l k). reflexivity.
  - exfalso. apply (H2 c i d r k). reflexivity.
  - unfold step. rewrite E. reflexivity.
Qed.

Lemma step_admin_same s e : Inv s ->
  (forall c a, ev_op e <> OInit c a) -> (forall c a k, ev_op e <> OTransfer c a k) ->
  s_admin (snd (stp s e)) = s_admin s.
Proof.
  intros I H1 H2. destruct (res_true_dec (fst (stp s e))) as [A|NA]; [|rewrite (step_refused_same valid_id s e NA); reflexivity].
  destruct (ev_op e) as [c a|c a k|c a r fns k|c a r ps k|c f t r p l k|c i d r k|c cid cfn k] eqn:E.
  - exfalso. apply (H1 c a). reflexivity.
  - exfalso. apply (H2 c a k). reflexivity.
  - rewrite (proj2 (funcs_accept valid_id s e c a r fns k E) A). reflexivity.
  - rewrite (proj2 (ids_accept valid_id s e c a r ps k E) A). apply assign_fold_admin.
  - unfold step in *. rewrite E in *.
    destruct (delegate_effect valid_id s (ev_env e) c f t r p l k I A) as [lvl' [exp' [_ [_ [_ [_ EQ]]]]]]. rewrite EQ. reflexivity.
  - destruct (proj2 (withdraw_accept valid_id s e c i d r k I E) A) as [l1 [x [l2 [_ [_ EQ]]]]]. rewrite EQ. reflexivity.
  - unfold step. rewrite E. reflexivity.
Qed.

(** function assignment *)
Lemma fn_assigned_nonempty s c r f : fn_assigned s c r f = true -> f <> [].
Proof.
  intro H. apply fn_assigned_spec in H. destruct H as [fs [E H]]. unfold get_role_func in E.
  destruct (s_funcs s (c, r)); simpl in E; [|discriminate]. inversion E; subst. apply In_dedup_sort in H. tauto.
Qed.

Lemma step_fn s e c r f : Inv s ->
  (fn_assigned (snd (stp s e)) c r f = true <-> fn_assigned s c r f = true \/ ev_assign_fn s e c r f).
Proof.
  intro I.
  destruct (ev_op e) as [c0 a0|c0 a0 k0|c0 a0 r0 fns0 k0|c0 a0 r0 ps0 k0|c0 f0 t0 r0 p0 l0 k0|c0 i0 d0 r0 k0|c0 cid cfn k0] eqn:E.
  3: {
    destruct (funcs_accept valid_id s e c0 a0 r0 fns0 k0 E) as [ACC EFF].
    destruct (res_true_dec (fst (stp s e))) as [A|NA].
    - rewrite (EFF A). apply ACC in A. destruct A as [RN AP].
      destruct (key_eq_dec (c, r) (c0, r0)) as [K|NK].
      + inversion K; subst c0 r0. unfold fn_assigned at 1, get_role_func. simpl. rewrite fput_same. simpl.
        rewrite contains_func_spec, In_dedup_sort, In_dedup_sort, in_app_iff.
        assert (OLD : In f (opt_list (get_role_func s c r)) <-> fn_assigned s c r f = true).
        { rewrite fn_assigned_spec. destruct (get_role_func s c r) as [fs|]; simpl.
          - split; [intro H; exists fs; auto|intros [fs' [X H]]; inversion X; subst; exact H].
          - split; [intros []|intros [fs' [X _]]; discriminate]. }
        rewrite OLD. split.
        * intros [[[H|H] N] _]; [left; exact H|right]. exists a0, fns0, k0. exact (conj E (conj RN (conj AP (conj H N)))).
        * intros [H|[a [fns [k [E' [_ [_ [H N]]]]]]]].
          -- pose proof (fn_assigned_nonempty s c r f H). tauto.
          -- rewrite E in E'. inversion E'; subst. tauto.
      + rewrite (fn_assigned_ext s _ c r f); [|simpl; apply fput_other; exact NK].
        split; [auto|intros [H|[a [fns [k [E' _]]]]]; [exact H|]]. rewrite E in E'. inversion E'; subst. contradiction.
    - rewrite (step_refused_same valid_id s e NA). split; [auto|intros [H|[a [fns [k [E' [RN [AP _]]]]]]]; [exact H|]].
      rewrite E in E'. inversion E'; subst. exfalso. apply NA. apply ACC. auto. }
  all: rewrite (fn_assigned_ext s _ c r f) by (rewrite step_funcs_same; [reflexivity|exact I|intros; rewrite E; discriminate]).
  all: split; [auto|intros [H|[a [fns [k [E' _]]]]]; [exact H|rewrite E in E'; discriminate]].
Qed.


(** role assignment *)
Lemma step_direct s e c id r : Inv s ->
  (holds_direct (snd (stp s e)) c id r = true <-> holds_direct s c id r = true \/ ev_assign_id valid_id s e c id r).
Proof.
  intro I.
  destruct (ev_op e) as [c0 a0|c0 a0 k0|c0 a0 r0 fns0 k0|c0 a0 r0 ps0 k0|c0 f0 t0 r0 p0 l0 k0|c0 i0 d0 r0 k0|c0 cid cfn k0] eqn:E.
  4: {
    destruct (ids_accept valid_id s e c0 a0 r0 ps0 k0 E) as [ACC EFF].
    destruct (res_true_dec (fst (stp s e))) as [A|NA].
    - rewrite (EFF A). apply ACC in A. destruct A as [RN [AV AP]].
      rewrite (assign_fold_direct (ev_now e) c0 r0 ps0 s c id r I). split.
      + intros [H|[X1 [X2 [X3 X4]]]]; [left; exact H|right]. subst c0 r0. split; [|exact X4].
        exists a0, ps0, k0. exact (conj E (conj RN (conj AV (conj AP X3)))).
      + intros [H|[(a & ps & k & E' & _ & _ & _ & X3) X4]]; [left; exact H|right].
        rewrite E in E'. inversion E'; subst. auto.
    - rewrite (step_refused_same valid_id s e NA). split; [auto|intros [H|[(a & ps & k & E' & RN & AV & AP & _) _]]; [exact H|]].
      rewrite E in E'. inversion E'; subst. exfalso. apply NA. apply ACC. auto. }
  all: rewrite (holds_direct_ext s _ c id r) by (rewrite step_tokens_same; [reflexivity|exact I|intros; rewrite E; discriminate]).
  all: split; [auto|intros [H|[(a & ps & k & E' & _) _]]; [exact H|rewrite E in E'; discriminate]].
Qed.

Lemma step_direct_mono s e c id r : Inv s -> holds_direct s c id r = true -> holds_direct (snd (stp s e)) c id r = true.
Proof. intros I H. apply step_direct; auto. Qed.

(** admin *)
Lemma admin_of_set s c0 a0 c : admin_of (set_admin s c0 a0) c = if bytes_eqb c c0 then Some a0 else admin_of s c.
Proof.
  unfold admin_of, get_admin, set_admin; simpl. unfold fput, key_eqb; simpl. rewrite andb_true_r. reflexivity.
Qed.

Lemma step_admin s e c a : Inv s ->
  (admin_of (snd (stp s e)) c = Some a <->
   ev_sets_admin valid_id s e c a \/ (admin_of s c = Some a /\ ~ exists a', ev_sets_admin valid_id s e c a')).
Proof.
  intro I.
  destruct (ev_op e) as [c0 a0|c0 a0 k0|c0 a0 r0 fns0 k0|c0 a0 r0 ps0 k0|c0 f0 t0 r0 p0 l0 k0|c0 i0 d0 r0 k0|c0 cid cfn k0] eqn:E.
  1: {
    destruct (init_accept valid_id s e c0 a0 E) as [ACC EFF].
    destruct (res_true_dec (fst (stp s e))) as [A|NA].
    - rewrite (EFF A), admin_of_set. apply ACC in A. destruct A as [V AN].
      destruct (bytes_eqb c c0) eqn:B.
      + apply bytes_eqb_eq in B. subst c0. split.
        * intro H. inversion H; subst a0. left. split; [exact V|left; auto].
        * intros [[_ [[E' _]|[k [a1 [E' _]]]]]|[H _]].
          -- rewrite E in E'. inversion E'; subst. reflexivity.
          -- rewrite E in E'. discriminate.
          -- congruence.
      + apply bytes_eqb_neq in B. split.
        * intro H. right. split; [exact H|]. intros [a' [_ [[E' _]|[k [a1 [E' _]]]]]]; rewrite E in E'; [inversion E'; subst; contradiction|discriminate].
        * intros [[_ [[E' _]|[k [a1 [E' _]]]]]|[H _]]; [rewrite E in E'; inversion E'; subst; contradiction|rewrite E in E'; discriminate|exact H].
    - rewrite (step_refused_same valid_id s e NA). split.
      + intro H. right. split; [exact H|]. intros [a' [V [[E' AN]|[k [a1 [E' _]]]]]]; rewrite E in E'; [|discriminate].
        inversion E'; subst. apply NA. apply ACC. auto.
      + intros [[V [[E' AN]|[k [a1 [E' _]]]]]|[H _]]; [|rewrite E in E'; discriminate|exact H].
        rewrite E in E'. inversion E'; subst. exfalso. apply NA. apply ACC. auto. }
  1: {
    destruct (transfer_accept valid_id s e c0 a0 k0 E) as [ACC EFF].
    destruct (res_true_dec (fst (stp s e))) as [A|NA].
    - rewrite (EFF A), admin_of_set. apply ACC in A. destruct A as [V [a1 [A1 S1]]].
      destruct (bytes_eqb c c0) eqn:B.
      + apply bytes_eqb_eq in B. subst c0. split.
        * intro H. inversion H; subst a0. left. split; [exact V|right; exists k0, a1; auto].
        * intros [[_ [[E' _]|[k [a2 [E' _]]]]]|[_ H]].
          -- rewrite E in E'. discriminate.
          -- rewrite E in E'. inversion E'; subst. reflexivity.
          -- exfalso. apply H. exists a0. split; [exact V|right; exists k0, a1; auto].
      + apply bytes_eqb_neq in B. split.
        * intro H. right. split; [exact H|]. intros [a' [_ [[E' _]|[k [a2 [E' _]]]]]]; rewrite E in E'; [discriminate|inversion E'; subst; contradiction].
        * intros [[_ [[E' _]|[k [a2 [E' _]]]]]|[H _]]; [rewrite E in E'; discriminate|rewrite E in E'; inversion E'; subst; contradiction|exact H].
    - rewrite (step_refused_same valid_id s e NA). split.
      + intro H. right. split; [exact H|]. intros [a' [V [[E' AN]|[k [a1 [E' [A1 S1]]]]]]]; rewrite E in E'; [discriminate|].
        inversion E'; subst. apply NA. apply ACC. eauto.
      + intros [[V [[E' AN]|[k [a1 [E' [A1 S1]]]]]]|[H _]]; [rewrite E in E'; discriminate| |exact H].
        rewrite E in E'. inversion E'; subst. exfalso. apply NA. apply ACC. eauto. }
  all: assert (SA : admin_of (snd (stp s e)) c = admin_of s c)
    by (unfold admin_of, get_admin; rewrite step_admin_same; [reflexivity|exact I|intros; rewrite E; discriminate|intros; rewrite E; discriminate]).
  all: rewrite SA; split;
    [intro H; right; split; [exact H|]; intros [a' [_ [[E' _]|[k [a1 [E' _]]]]]]; rewrite E in E'; discriminate
    |intros [[_ [[E' _]|[k [a1 [E' _]]]]]|[H _]]; [rewrite E in E'; discriminate|rewrite E in E'; discriminate|exact H]].
Qed.
End StepObs.

Section StepDeleg.
Variable valid_id : bytes -> bool.
Notation stp := (step valid_id).

Lemma ev_delegate_inj s e c0 f0 t0 r0 p0 l0 k0 c from to r exp lvl :
  ev_op e = ODelegate c0 f0 t0 r0 p0 l0 k0 -> ev_delegate valid_id s e c from to r exp lvl ->
  c = c0 /\ from = f0 /\ to = t0 /\ r = r0 /\ lvl = l0 /\ exp = ev_now e + p0.
Proof.
  intros E (period & k & E' & _ & _ & _ & _ & _ & _ & _ & _ & _ & _ & X & _).
  rewrite E in E'. inversion E'; subst. auto 6.
Qed.

Lemma ev_withdraw_inj s e c0 i0 d0 r0 k0 c id r :
  ev_op e = OWithdraw c0 i0 d0 r0 k0 -> ev_withdraw s e c id r -> c = c0 /\ id = d0 /\ r = r0.
Proof.
  intros E (init & d & (k & E' & _) & _). rewrite E in E'. inversion E'; subst. auto.
Qed.

Lemma deleg_of_set s c0 id0 l c id r :
  deleg_of (set_deleg s (c0, id0) l) c id r =
  if key_eqb (c, id) (c0, id0) then find (has_role r) l else deleg_of s c id r.
Proof. unfold deleg_of, set_deleg; simpl. unfold fput. destruct (key_eqb (c, id) (c0, id0)); reflexivity. Qed.

Lemma step_deleg s e c id r d : Inv s -> ev_now e < 4294967296 ->
  (deleg_of (snd (stp s e)) c id r = Some d <->
   (exists from exp lvl, ev_delegate valid_id s e c from id r exp lvl /\ d = mkDel from (mkTok r exp lvl)) \/
   (deleg_of s c id r = Some d /\ ~ ev_withdraw s e c id r /\ ~ ev_delegate_to valid_id s e c id r)).
Proof.
  intros I Hn.
  destruct (ev_op e) as [c0 a0|c0 a0 k0|c0 a0 r0 fns0 k0|c0 a0 r0 ps0 k0|c0 f0 t0 r0 p0 l0 k0|c0 i0 d0 r0 k0|c0 cid cfn k0] eqn:E.
  5: {
    destruct (delegate_accept valid_id s e c0 f0 t0 r0 p0 l0 k0 I Hn E) as [ACC EFF].
    assert (NW : ~ ev_withdraw s e c id r) by (intros (init & d' & (k & E' & _) & _); rewrite E in E'; discriminate).
    destruct (res_true_dec (fst (stp s e))) as [A|NA].
    - rewrite (EFF A), deleg_of_set. apply ACC in A.
      destruct (key_eqb (c, id) (c0, t0)) eqn:K.
      + apply key_eqb_eq in K. inversion K; subst c0 t0. rewrite upd_status_find.
        destruct (bytes_eqb r0 r) eqn:B.
        * apply bytes_eqb_eq in B. subst r0. split.
          -- intro H. inversion H. left. exists f0, (ev_now e + p0), l0. auto.
          -- intros [(from & exp & lvl & D & ->)|[_ [_ H]]].
             ++ destruct (ev_delegate_inj s e _ _ _ _ _ _ _ _ _ _ _ _ _ E D) as (_ & -> & _ & _ & -> & ->). reflexivity.
             ++ exfalso. apply H. exists f0, (ev_now e + p0), l0. exact A.
        * apply bytes_eqb_neq in B. rewrite <- deleg_of_find. split.
          -- intro H. right. repeat split; auto. intros (from & exp & lvl & D).
             destruct (ev_delegate_inj s e _ _ _ _ _ _ _ _ _ _ _ _ _ E D) as (_ & _ & _ & X & _). congruence.
          -- intros [(from & exp & lvl & D & _)|[H _]]; [|exact H].
             destruct (ev_delegate_inj s e _ _ _ _ _ _ _ _ _ _ _ _ _ E D) as (_ & _ & _ & X & _). congruence.
      + assert (NK : (c, id) <> (c0, t0)) by (intro X; apply key_eqb_eq in X; congruence). split.
        * intro H. right. repeat split; auto. intros (from & exp & lvl & D).
          destruct (ev_delegate_inj s e _ _ _ _ _ _ _ _ _ _ _ _ _ E D) as (X1 & _ & X2 & _). subst. contradiction.
        * intros [(from & exp & lvl & D & _)|[H _]]; [|exact H].
          destruct (ev_delegate_inj s e _ _ _ _ _ _ _ _ _ _ _ _ _ E D) as (X1 & _ & X2 & _). subst. contradiction.
    - rewrite (step_refused_same valid_id s e NA). split.
      + intro H. right. repeat split; auto. intros (from & exp & lvl & D).
        destruct (ev_delegate_inj s e _ _ _ _ _ _ _ _ _ _ _ _ _ E D) as (-> & -> & -> & -> & -> & ->). apply NA. apply ACC. exact D.
      + intros [(from & exp & lvl & D & _)|[H _]]; [|exact H].
        destruct (ev_delegate_inj s e _ _ _ _ _ _ _ _ _ _ _ _ _ E D) as (-> & -> & -> & -> & -> & ->). exfalso. apply NA. apply ACC. exact D. }
  5: {
    destruct (withdraw_accept valid_id s e c0 i0 d0 r0 k0 I E) as [ACC EFF].
    assert (ND : forall from exp lvl, ~ ev_delegate valid_id s e c from id r exp lvl)
      by (intros from exp lvl (p & k & E' & _); rewrite E in E'; discriminate).
    assert (NDT : ~ ev_delegate_to valid_id s e c id r) by (intros (from & exp & lvl & D); apply (ND _ _ _ D)).
    assert (WI : ev_withdraw s e c0 d0 r0 <-> fst (stp s e) = RTrue).
    { rewrite ACC. split.
      - intros (init & d' & (k & E' & S) & DO & RT). rewrite E in E'. inversion E'; subst. eauto.
      - intros [S (d' & DO & RT)]. exists i0, d'. split; [exists k0; auto|auto]. }
    destruct (res_true_dec (fst (stp s e))) as [A|NA].
    - destruct (EFF A) as (l1 & x & l2 & EL & ER & EQ). rewrite EQ, deleg_of_set.
      destruct (key_eqb (c, id) (c0, d0)) eqn:K.
      + apply key_eqb_eq in K. inversion K; subst c0 d0.
        assert (NDU : NoDup (map d_role (l1 ++ x :: l2))) by (rewrite <- EL; apply (inv_delegs s c id I)).
        rewrite (find_removed l1 x l2 r NDU), ER.
        destruct (bytes_eqb r0 r) eqn:B.
        * apply bytes_eqb_eq in B. subst r. split; [discriminate|].
          intros [(from & exp & lvl & D & _)|[_ [H _]]]; [exfalso; apply (ND _ _ _ D)|]. exfalso. apply H. apply WI. exact A.
        * apply bytes_eqb_neq in B. rewrite <- EL, <- deleg_of_find. split.
          -- intro H. right. repeat split; auto. intro W. destruct (ev_withdraw_inj s e _ _ _ _ _ _ _ _ E W) as (_ & _ & X). congruence.
          -- intros [(from & exp & lvl & D & _)|[H _]]; [exfalso; apply (ND _ _ _ D)|exact H].
      + assert (NK : (c, id) <> (c0, d0)) by (intro X; apply key_eqb_eq in X; congruence). split.
        * intro H. right. repeat split; auto. intro W. destruct (ev_withdraw_inj s e _ _ _ _ _ _ _ _ E W) as (X1 & X2 & _). subst. contradiction.
        * intros [(from & exp & lvl & D & _)|[H _]]; [exfalso; apply (ND _ _ _ D)|exact H].
    - rewrite (step_refused_same valid_id s e NA). split.
      + intro H. right. repeat split; auto. intro W. destruct (ev_withdraw_inj s e _ _ _ _ _ _ _ _ E W) as (-> & -> & ->). apply NA. apply WI. exact W.
      + intros [(from & exp & lvl & D & _)|[H _]]; [exfalso; apply (ND _ _ _ D)|exact H]. }
  all: rewrite (deleg_of_ext s _ c id r) by (rewrite step_deleg_same; [reflexivity|exact I|intros; rewrite E; discriminate|intros; rewrite E; discriminate]).
  all: split;
    [intro H; right; repeat split; auto;
      [intros (init & d' & (k & E' & _) & _); rewrite E in E'; discriminate
      |intros (from & exp & lvl & p & k & E' & _); rewrite E in E'; discriminate]
    |intros [(from & exp & lvl & (p & k & E' & _) & _)|[H _]]; [rewrite E in E'; discriminate|exact H]].
Qed.
End StepDeleg.

(** * Histories *)
Lemma snoc_split {A} (h : list A) x h1 e h2 : h ++ [x] = h1 ++ e :: h2 ->
  (h2 = [] /\ h1 = h /\ e = x) \/ (exists h2', h2 = h2' ++ [x] /\ h = h1 ++ e :: h2').
Proof.
  intro H. destruct (exists_last (l := e :: h2)) as [l' [y Hy]]; [discriminate|].
  destruct h2 as [|z h2].
  - left. change (h1 ++ [e]) with (h1 ++ [e]) in H. apply app_inj_tail in H. destruct H; subst; auto.
  - right. destruct (exists_last (l := z :: h2)) as [h2' [y' Hy']]; [discriminate|].
    rewrite Hy' in *. exists h2'. replace (h1 ++ e :: h2' ++ [y']) with ((h1 ++ e :: h2') ++ [y']) in H by (rewrite <- app_assoc; reflexivity).
    apply app_inj_tail in H. destruct H; subst; auto.
Qed.


Section Histories.
Variable valid_id : bytes -> bool.
Notation stp := (step valid_id).
Notation run := (run valid_id).

Lemma run_nil : run [] = init_state.
Proof. reflexivity. Qed.

(** A set that only grows. *)
Lemma grow_events (P : state -> bool) (Ev : state -> event -> Prop) :
  P init_state = false ->
  (forall s e, Inv s -> (P (snd (stp s e)) = true <-> P s = true \/ Ev s e)) ->
  forall h, P (run h) = true <-> exists h1 e h2, h = h1 ++ e :: h2 /\ Ev (run h1) e.
Proof.
  intros P0 ST h. induction h as [|x h IH] using rev_ind.
  - rewrite run_nil, P0. split; [discriminate|]. intros (h1 & e & h2 & H & _). destruct h1; discriminate.
  - rewrite run_snoc, (ST _ x (run_inv valid_id h)), IH. split.
    + intros [(h1 & e & h2 & H & EV)|EV].
      * exists h1, e, (h2 ++ [x]). split; [rewrite H, <- app_assoc; reflexivity|exact EV].
      * exists h, x, []. auto.
    + intros (h1 & e & h2 & H & EV). apply snoc_split in H. destruct H as [(-> & -> & ->)|(h2' & -> & ->)].
      * right; exact EV.
      * left. exists h1, e, h2'. auto.
Qed.

(** A register: the last event that sets it decides. *)
Lemma last_writer {X} (O : state -> option X) (Sets : state -> event -> X -> Prop) :
  O init_state = None ->
  (forall s e x, Inv s -> (O (snd (stp s e)) = Some x <-> Sets s e x \/ (O s = Some x /\ ~ exists x', Sets s e x'))) ->
  forall h x, O (run h) = Some x <->
    exists h1 e h2, h = h1 ++ e :: h2 /\ Sets (run h1) e x /\
      forall h2a e' h2b, h2 = h2a ++ e' :: h2b -> ~ exists x', Sets (run (h1 ++ e :: h2a)) e' x'.
Proof.
  intros O0 ST h. induction h as [|y h IH] using rev_ind; intro x.
  - rewrite run_nil, O0. split; [discriminate|]. intros (h1 & e & h2 & H & _). destruct h1; discriminate.
  - rewrite run_snoc, (ST _ y x (run_inv valid_id h)), IH. split.
    + intros [SE|[(h1 & e & h2 & H & SE & NL) NS]].
      * exists h, y, []. repeat split; auto. intros h2a e' h2b H. destruct h2a; discriminate.
      * exists h1, e, (h2 ++ [y]). split; [rewrite H, <- app_assoc; reflexivity|]. split; [exact SE|].
        intros h2a e' h2b H2. apply snoc_split in H2. destruct H2 as [(-> & -> & ->)|(h2b' & -> & ->)].
        -- rewrite <- H. exact NS.
        -- apply (NL h2a e' h2b'). reflexivity.
    + intros (h1 & e & h2 & H & SE & NL). apply snoc_split in H. destruct H as [(-> & -> & ->)|(h2' & -> & ->)].
      * left; exact SE.
      * right. split.
        -- exists h1, e, h2'. repeat split; auto. intros h2a e' h2b H2. apply (NL h2a e' (h2b ++ [y])). rewrite H2, <- app_assoc. reflexivity.
        -- apply (NL h2' y []). reflexivity.
Qed.

Lemma fn_assigned_init c r f : fn_assigned init_state c r f = false.
Proof. reflexivity. Qed.
Lemma holds_direct_init c id r : holds_direct init_state c id r = false.
Proof. reflexivity. Qed.

Lemma fn_events h c r f :
  fn_assigned (run h) c r f = true <-> exists h1 e h2, h = h1 ++ e :: h2 /\ ev_assign_fn (run h1) e c r f.
Proof.
  apply (grow_events (fun s => fn_assigned s c r f) (fun s e => ev_assign_fn s e c r f)); [reflexivity|].
  intros s e I. apply step_fn. exact I.
Qed.

Lemma direct_events h c id r :
  holds_direct (run h) c id r = true <-> exists h1 e h2, h = h1 ++ e :: h2 /\ ev_assign_id valid_id (run h1) e c id r.
Proof.
  apply (grow_events (fun s => holds_direct s c id r) (fun s e => ev_assign_id valid_id s e c id r)); [reflexivity|].
  intros s e I. apply step_direct. exact I.
Qed.

Lemma admin_events h c a :
  admin_of (run h) c = Some a <->
  exists h1 e h2, h = h1 ++ e :: h2 /\ ev_sets_admin valid_id (run h1) e c a /\
    forall h2a e' h2b, h2 = h2a ++ e' :: h2b -> ~ exists a', ev_sets_admin valid_id (run (h1 ++ e :: h2a)) e' c a'.
Proof.
  apply (last_writer (fun s => admin_of s c) (fun s e a => ev_sets_admin valid_id s e c a)); [reflexivity|].
  intros s e x I. apply step_admin. exact I.
Qed.

(** holding a role by admin assignment is permanent *)
Lemma direct_prefix h1 h2 c id r : holds_direct (run h1) c id r = true -> holds_direct (run (h1 ++ h2)) c id r = true.
Proof.
  intro H. induction h2 as [|x h2 IH] using rev_ind; [rewrite app_nil_r; exact H|].
  rewrite app_assoc, run_snoc. apply step_direct_mono; [apply run_inv|exact IH].
Qed.

End Histories.

Section DelegHistories.
Variable valid_id : bytes -> bool.
Notation stp := (step valid_id).
Notation run := (run valid_id).

Lemma withdraw_of_record s e c id r from exp lvl :
  deleg_of s c id r = Some (mkDel from (mkTok r exp lvl)) ->
  (ev_withdraw s e c id r <-> ev_withdraw_by e c from id r).
Proof.
  intro D. split.
  - intros (init & d & W & D' & R). rewrite D in D'. inversion D'; subst d. simpl in R. subst. exact W.
  - intro W. exists from, (mkDel from (mkTok r exp lvl)). auto.
Qed.

Lemma times_snoc h x : times_u32 (h ++ [x]) -> times_u32 h /\ ev_now x < 4294967296.
Proof. intro H. apply Forall_app in H. destruct H as [H1 H2]. inversion H2; auto. Qed.

Lemma deleg_events h c id r from exp lvl : times_u32 h ->
  (deleg_of (run h) c id r = Some (mkDel from (mkTok r exp lvl)) <-> deleg_in_force valid_id h c id r from exp lvl).
Proof.
  induction h as [|x h IH] using rev_ind; intro TU.
  - split; [discriminate|]. intros (h1 & e & h2 & H & _). destruct h1; discriminate.
  - apply times_snoc in TU. destruct TU as [TU Hx]. specialize (IH TU).
    rewrite run_snoc, (step_deleg valid_id (run h) x c id r _ (run_inv valid_id h) Hx). split.
    + intros [(from' & exp' & lvl' & D & EQ)|(D & NW & ND)].
      * inversion EQ; subst from' exp' lvl'. exists h, x, []. split; [reflexivity|]. split; [exact D|]. split.
        -- intros h2a e' h2b H. destruct h2a; discriminate.
        -- intros e' [].
      * pose proof D as D0. apply IH in D. destruct D as (h1 & e & h2 & H & DE & NL & NWB).
        exists h1, e, (h2 ++ [x]). split; [rewrite H, <- app_assoc; reflexivity|]. split; [exact DE|]. split.
        -- intros h2a e' h2b H2. apply snoc_split in H2. destruct H2 as [(-> & -> & ->)|(h2b' & -> & ->)].
           ++ rewrite <- H. exact ND.
           ++ apply (NL h2a e' h2b'). reflexivity.
        -- intros e' Hin. apply in_app_iff in Hin. destruct Hin as [Hin|[<-|[]]]; [apply NWB; exact Hin|].
           intro W. apply NW. apply (withdraw_of_record _ _ _ _ _ _ _ _ D0). exact W.
    + intros (h1 & e & h2 & H & DE & NL & NWB). apply snoc_split in H. destruct H as [(-> & -> & ->)|(h2' & -> & ->)].
      * left. exists from, exp, lvl. auto.
      * right.
        assert (D : deleg_of (run (h1 ++ e :: h2')) c id r = Some (mkDel from (mkTok r exp lvl))).
        { apply IH. exists h1, e, h2'. split; [reflexivity|]. split; [exact DE|]. split.
          - intros h2a e' h2b H2. apply (NL h2a e' (h2b ++ [x])). rewrite H2, <- app_assoc. reflexivity.
          - intros e' Hin. apply NWB. apply in_app_iff. left; exact Hin. }
        split; [exact D|]. split.
        -- intro W. apply (withdraw_of_record _ _ _ _ _ _ _ _ D) in W. apply (NWB x); [apply in_app_iff; right; left; reflexivity|exact W].
        -- apply (NL h2' x []). reflexivity.
Qed.

(** every stored delegation record has the shape [mkDel from (mkTok r exp lvl)] with its role *)
Lemma deleg_of_shape s c id r d : deleg_of s c id r = Some d ->
  d = mkDel (d_root d) (mkTok r (d_expire d) (d_level d)).
Proof.
  intro H. apply deleg_of_some in H. destruct H as [_ H]. destruct d as [root [ro ex lv]].
  unfold d_role, d_expire, d_level in *; simpl in *. subst. reflexivity.
Qed.

End DelegHistories.

(** * The property *)
Section Main.
Variable valid_id : bytes -> bool.
Notation stp := (step valid_id).
Notation run := (run valid_id).

(** T1: verifyToken after any history, in terms of the stored sets. *)
Lemma verify_token_run h e c caller fn k :
  verify_token (run h) e c caller fn k = RTrue <->
  e_sig e caller k = SigOk /\
  exists r, fn_assigned (run h) c r fn = true /\
    ((holds_direct (run h) c caller r = true /\ e_now e <= AUTH_FUTURE) \/
     (exists d, deleg_of (run h) c caller r = Some d /\ e_now e <= d_expire d)).
Proof. apply verify_token_state. apply run_inv. Qed.

Lemma fn_given_iff h c r f : fn_assigned (run h) c r f = true <-> fn_given valid_id h c r f.
Proof. apply fn_events. Qed.
Lemma role_assigned_iff h c id r : holds_direct (run h) c id r = true <-> role_assigned valid_id h c id r.
Proof. apply direct_events. Qed.

(** Main theorem, event level. *)
Lemma verify_token_events h e c caller fn k : times_u32 h ->
  (verify_token (run h) e c caller fn k = RTrue <->
   e_sig e caller k = SigOk /\ may_call valid_id h (e_now e) c caller fn).
Proof.
  intro TU. rewrite verify_token_run. unfold may_call. split.
  - intros [S (r & F & HR)]. split; [exact S|]. exists r. split; [apply fn_given_iff; exact F|].
    destruct HR as [[D L]|(d & D & L)].
    + left. split; [apply role_assigned_iff; exact D|exact L].
    + right. pose proof (deleg_of_shape _ _ _ _ _ D) as SH. rewrite SH in D.
      exists (d_root d), (d_expire d), (d_level d). split; [apply deleg_events; assumption|exact L].
  - intros [S (r & F & HR)]. split; [exact S|]. exists r. split; [apply fn_given_iff; exact F|].
    destruct HR as [[D L]|(from & exp & lvl & D & L)].
    + left. split; [apply role_assigned_iff; exact D|exact L].
    + right. apply deleg_events in D; [|exact TU]. eexists. split; [exact D|exact L].
Qed.

(** The property text's reading ("the admin assigned the role") is implied by every grant ... *)
Lemma role_assigned_named h c id r : role_assigned valid_id h c id r -> role_named valid_id h c id r.
Proof. intros (h1 & e & h2 & H & N & _). exists h1, e, h2. auto. Qed.

Lemma may_call_text_of h now c id f : may_call valid_id h now c id f -> may_call_text valid_id h now c id f.
Proof.
  intros (r & F & [[D L]|X]); exists r; (split; [exact F|]); [left; split; [apply role_assigned_named; exact D|exact L]|right; exact X].
Qed.

Lemma verify_token_sound_text h e c caller fn k : times_u32 h ->
  verify_token (run h) e c caller fn k = RTrue ->
  e_sig e caller k = SigOk /\ may_call_text valid_id h (e_now e) c caller fn.
Proof.
  intros TU H. apply verify_token_events in H; [|exact TU]. destruct H as [S M]. split; [exact S|apply may_call_text_of; exact M].
Qed.

(** ... and is equivalent on histories in which no accepted assignment was silently skipped. *)
Lemma verify_token_text_partial h e c caller fn k : times_u32 h -> no_skipped_assignment valid_id h ->
  (verify_token (run h) e c caller fn k = RTrue <->
   e_sig e caller k = SigOk /\ may_call_text valid_id h (e_now e) c caller fn).
Proof.
  intros TU NS. rewrite (verify_token_events h e c caller fn k TU). split.
  - intros [S M]. split; [exact S|apply may_call_text_of; exact M].
  - intros [S (r & F & [[(h1 & ev & h2 & H & N) L]|X])]; (split; [exact S|]); exists r; (split; [exact F|]); [left|right; exact X].
    split; [|exact L]. exists h1, ev, h2. split; [exact H|]. split; [exact N|]. apply (NS h1 ev h2 c caller r H N).
Qed.

(** Who could delegate: the delegator of a delegation in force was assigned the role by the admin
    before delegating. *)
Lemma delegator_was_assigned h c id r from exp lvl : deleg_in_force valid_id h c id r from exp lvl ->
  exists h1 e h2, h = h1 ++ e :: h2 /\ role_assigned valid_id h1 c from r /\
                  exp < AUTH_FUTURE /\ 0 < lvl /\ lvl < ADMIN_TOKEN_LEVEL.
Proof.
  intros (h1 & e & h2 & H & D & _). exists h1, e, h2. split; [exact H|].
  destruct D as (p & k & _ & _ & _ & _ & _ & _ & HD & _ & _ & L1 & L2 & _ & X).
  split; [apply role_assigned_iff; exact HD|]. rewrite admin_level_can_delegate. auto.
Qed.

(** Levels limit re-delegation: who holds the role only through a delegation cannot delegate it. *)
Lemma delegate_needs_admin_assignment s e c from to r p l k : Inv s -> ev_now e < 4294967296 ->
  ev_op e = ODelegate c from to r p l k -> holds_direct s c from r = false -> fst (stp s e) <> RTrue.
Proof.
  intros I Hn E H A. apply (proj1 (delegate_accept valid_id s e c from to r p l k I Hn E)) in A.
  destruct A as (p' & k' & _ & _ & _ & _ & _ & _ & HD & _). congruence.
Qed.

(** The boundary: at now = expireTime verifyToken still grants, getAuthToken already says no. *)
Lemma boundary_now_equals_expire h e c id r from exp lvl fn k : times_u32 h ->
  deleg_in_force valid_id h c id r from exp lvl -> fn_given valid_id h c r fn ->
  e_sig e id k = SigOk -> e_now e = exp ->
  verify_token (run h) e c id fn k = RTrue /\
  (holds_direct (run h) c id r = false -> get_auth_token (run h) (e_now e) c id r = None).
Proof.
  intros TU D F S N. split.
  - apply verify_token_events; [exact TU|]. split; [exact S|]. exists r. split; [exact F|]. right.
    exists from, exp, lvl. split; [exact D|lia].
  - intro HD. apply gat_none; [apply run_inv|]. split; [exact HD|].
    apply deleg_events in D; [|exact TU]. intros (d & D' & L). rewrite D in D'. inversion D'; subst d.
    unfold d_expire in L; simpl in L. lia.
Qed.

End Main.
