(** Proofs/MerkleVerify.v — the iterative verifiers of MerkleVerifier against the level view of the
    RFC-6962 tree: soundness (constructive: the claim holds or a hash_children collision is
    exhibited) and completeness on bottom-up sibling lists. *)
From Coq Require Import List Bool Arith NArith ZArith Lia.
Local Open Scope nat_scope.
Import ListNotations.
From Ont Require Import Model.Merkle Proofs.MerkleSpec.

Ltac Zify.zify_post_hook ::= Z.to_euclidean_division_equations.

(** * N / nat plumbing *)
Lemma Nodd_of_nat i : N.odd (N.of_nat i) = Nat.odd i.
Proof.
  pose proof (Nat.div2_odd i) as E. rewrite Nat.div2_div in E.
  destruct (N.odd (N.of_nat i)) eqn:H1.
  - apply N.odd_spec in H1. destruct H1 as [m Hm].
    destruct (Nat.odd i); [reflexivity|]. simpl in E. lia.
  - destruct (Nat.odd i) eqn:H2; [|reflexivity]. simpl in E.
    assert (N.odd (N.of_nat i) = true); [|congruence].
    apply N.odd_spec. exists (N.of_nat (i / 2)). lia.
Qed.

Lemma Ndiv2_of_nat i : N.div2 (N.of_nat i) = N.of_nat (i / 2).
Proof. rewrite N.div2_div. change 2%N with (N.of_nat 2). rewrite <- Nat2N.inj_div. reflexivity. Qed.

Lemma Nltb_of_nat a b : (N.of_nat a <? N.of_nat b)%N = (a <? b).
Proof. destruct (N.ltb_spec (N.of_nat a) (N.of_nat b)); destruct (Nat.ltb_spec a b); lia. Qed.

Lemma size_nat_0 n : N.size_nat n = 0 -> n = 0%N.
Proof. destruct n as [|p]; [reflexivity|]. destruct p; simpl; discriminate. Qed.

Lemma size_nat_S n f : N.size_nat n = S f -> n <> 0%N /\ N.size_nat (N.div2 n) = f.
Proof.
  destruct n as [|p]; [discriminate|]. destruct p; simpl; intro H; split; try discriminate; try congruence.
Qed.

Lemma size_nat_bound : forall f l, N.size_nat (N.of_nat l) = f -> l < 2 ^ f.
Proof.
  induction f as [|f IH]; intros l H.
  - apply size_nat_0 in H. simpl. lia.
  - apply size_nat_S in H. destruct H as [H0 H1]. rewrite Ndiv2_of_nat in H1.
    apply IH in H1. rewrite Nat.pow_succ_r'. lia.
Qed.

Lemma size_nat_lower_nat : forall f x, N.size_nat (N.of_nat x) = S f -> 2 ^ f <= x.
Proof.
  induction f as [|f IH]; intros x E.
  - destruct x; [discriminate|]. simpl. lia.
  - apply size_nat_S in E. destruct E as [_ E]. rewrite Ndiv2_of_nat in E.
    apply IH in E. rewrite Nat.pow_succ_r'. lia.
Qed.

Section Verify.
  Variable T : Type.
  Variable teqb : T -> T -> bool.
  Variable hc : T -> T -> T.
  Variable hempty : T.
  Hypothesis teqb_spec : forall a b, teqb a b = true <-> a = b.

  Notation mth := (mth T hc hempty).
  Notation up := (up T hc).
  Notation ups := (ups T hc).
  Notation audit_loop := (audit_loop T hc).

  (** an explicit collision of the node hash *)
  Definition collision : Prop := exists a b c e : T, (a <> c \/ b <> e) /\ hc a b = hc c e.

  Lemma T_eq_dec (a b : T) : {a = b} + {a <> b}.
  Proof.
    destruct (teqb a b) eqn:E.
    - left. apply teqb_spec. exact E.
    - right. intro H. apply teqb_spec in H. congruence.
  Qed.

  Lemma hc_inj a b c e : hc a b = hc c e -> collision \/ (a = c /\ b = e).
  Proof.
    intro H. destruct (T_eq_dec a c) as [E1|N1]; [destruct (T_eq_dec b e) as [E2|N2]|].
    - right; auto.
    - left. exists a, b, c, e. auto.
    - left. exists a, b, c, e. auto.
  Qed.

  Lemma up_ne L : L <> [] -> up L <> [].
  Proof. intros H E. apply up_nil_iff in E. contradiction. Qed.

  Lemma up_last_index L : L <> [] -> length (up L) - 1 = (length L - 1) / 2.
  Proof.
    intro H. rewrite up_length. destruct L; [congruence|]. simpl length. lia.
  Qed.

  (** * Inclusion: soundness of the audit loop *)
  Lemma audit_loop_sound d : forall f L i calc path r rest,
    L <> [] -> N.size_nat (N.of_nat (length L - 1)) = f -> i < length L ->
    audit_loop f calc (N.of_nat i) (N.of_nat (length L - 1)) path = Some (r, rest) ->
    ups f L = [r] ->
    collision \/ calc = nth i L d.
  Proof.
    induction f as [|f IH]; intros L i calc path r rest Hne Hf Hi Hrun Htop.
    - apply size_nat_0 in Hf. simpl in Hrun. inversion Hrun; subst.
      simpl in Htop. destruct L as [|x [|y l]]; simpl in *; try congruence; try lia.
      inversion Htop. subst. assert (i = 0) by lia. subst. right; reflexivity.
    - pose proof (size_nat_S _ _ Hf) as [Hl0 Hf'].
      assert (Hlen : 2 <= length L) by lia.
      cbn [Merkle.audit_loop] in Hrun.
      destruct path as [|p rest0]; [discriminate|].
      rewrite Nodd_of_nat, Nltb_of_nat, !Ndiv2_of_nat in Hrun.
      rewrite Ndiv2_of_nat in Hf'.
      assert (Hup : up L <> []) by (rewrite up_nil_iff; exact Hne).
      rewrite <- (up_last_index L Hne) in Hrun, Hf'.
      assert (Hi' : i / 2 < length (up L)) by (rewrite up_length; lia).
      cbn [MerkleSpec.ups] in Htop.
      odd_cases i.
      + destruct (IH _ _ _ _ _ _ Hup Hf' Hi' Hrun Htop) as [C|E]; [left; exact C|].
        rewrite (up_nth_pair T hc d L (i / 2)) in E by lia.
        apply hc_inj in E. destruct E as [C|[_ E]]; [left; exact C|].
        right. rewrite E. f_equal. lia.
      + destruct (Nat.ltb_spec i (length L - 1)) as [Hlt|Hge].
        * destruct (IH _ _ _ _ _ _ Hup Hf' Hi' Hrun Htop) as [C|E]; [left; exact C|].
          rewrite (up_nth_pair T hc d L (i / 2)) in E by lia.
          apply hc_inj in E. destruct E as [C|[E _]]; [left; exact C|].
          right. rewrite E. f_equal. lia.
        * destruct (IH _ _ _ _ _ _ Hup Hf' Hi' Hrun Htop) as [C|E]; [left; exact C|].
          rewrite (up_nth_last T hc d L (i / 2)) in E by lia.
          right. rewrite E. f_equal. lia.
  Qed.

  Theorem incl_sound_lists d (D : list T) (leaf : T) (idx : N) (proof : list T) :
    verify_leaf_hash_inclusion T teqb hc leaf idx proof (mth D) (N.of_nat (length D)) = VOk ->
    collision \/ leaf = nth (N.to_nat idx) D d.
  Proof.
    unfold verify_leaf_hash_inclusion, root_from_audit_path.
    destruct (N.leb_spec (N.of_nat (length D)) idx) as [|Hidx]; [discriminate|].
    destruct (Merkle.audit_loop _ _ _ _ _ _ _) as [[h rest]|] eqn:Hrun; [|discriminate].
    destruct rest; [|discriminate].
    destruct (teqb h (mth D)) eqn:Eh; [|discriminate]. intros _.
    apply teqb_spec in Eh. subst h.
    assert (Hne : D <> []) by (destruct D; simpl in *; [lia|congruence]).
    replace (N.of_nat (length D) - 1)%N with (N.of_nat (length D - 1)) in Hrun by lia.
    rewrite <- (N2Nat.id idx) in Hrun.
    eapply (audit_loop_sound d _ D); try eassumption; try reflexivity; try lia.
    apply ups_mth; [exact Hne|].
    pose proof (size_nat_bound _ (length D - 1) eq_refl). lia.
  Qed.

  (** a verifying audit path is the sibling list (or a collision is exhibited) *)
  Lemma audit_loop_unique d : forall f L i calc path r rest,
    L <> [] -> N.size_nat (N.of_nat (length L - 1)) = f -> i < length L ->
    audit_loop f calc (N.of_nat i) (N.of_nat (length L - 1)) path = Some (r, rest) ->
    ups f L = [r] ->
    collision \/ (calc = nth i L d /\ path = path_bu T hc d f i L ++ rest).
  Proof.
    induction f as [|f IH]; intros L i calc path r rest Hne Hf Hi Hrun Htop.
    - apply size_nat_0 in Hf. simpl in Hrun. inversion Hrun; subst.
      simpl in Htop. destruct L as [|x [|y l]]; simpl in *; try congruence; try lia.
      inversion Htop. subst. assert (i = 0) by lia. subst. right; split; reflexivity.
    - pose proof (size_nat_S _ _ Hf) as [Hl0 Hf'].
      assert (Hlen : 2 <= length L) by lia.
      cbn [Merkle.audit_loop] in Hrun.
      destruct path as [|p rest0]; [discriminate|].
      rewrite Nodd_of_nat, Nltb_of_nat, !Ndiv2_of_nat in Hrun.
      rewrite Ndiv2_of_nat in Hf'.
      assert (Hup : up L <> []) by (rewrite up_nil_iff; exact Hne).
      rewrite <- (up_last_index L Hne) in Hrun, Hf'.
      assert (Hi' : i / 2 < length (up L)) by (rewrite up_length; lia).
      cbn [MerkleSpec.ups] in Htop. cbn [path_bu]. unfold sib.
      odd_cases i.
      + destruct (IH _ _ _ _ _ _ Hup Hf' Hi' Hrun Htop) as [C|[E Ep]]; [left; exact C|].
        rewrite (up_nth_pair T hc d L (i / 2)) in E by lia.
        apply hc_inj in E. destruct E as [C|[Ea Eb]]; [left; exact C|].
        right. split.
        * rewrite Eb. f_equal. lia.
        * cbn [app]. rewrite Ep, Ea. f_equal. f_equal. lia.
      + destruct (Nat.ltb_spec i (length L - 1)) as [Hlt|Hge].
        * destruct (IH _ _ _ _ _ _ Hup Hf' Hi' Hrun Htop) as [C|[E Ep]]; [left; exact C|].
          rewrite (up_nth_pair T hc d L (i / 2)) in E by lia.
          apply hc_inj in E. destruct E as [C|[Ea Eb]]; [left; exact C|].
          right. split.
          -- rewrite Ea. f_equal. lia.
          -- cbn [app]. rewrite Ep, Eb. f_equal. f_equal. lia.
        * destruct (IH _ _ _ _ _ _ Hup Hf' Hi' Hrun Htop) as [C|[E Ep]]; [left; exact C|].
          rewrite (up_nth_last T hc d L (i / 2)) in E by lia.
          right. split.
          -- rewrite E. f_equal. lia.
          -- cbn [app]. exact Ep.
  Qed.

  Theorem incl_unique_lists d (D : list T) (leaf : T) (idx : N) (proof : list T) :
    verify_leaf_hash_inclusion T teqb hc leaf idx proof (mth D) (N.of_nat (length D)) = VOk ->
    collision \/ (leaf = nth (N.to_nat idx) D d /\ proof = rfc_path T hc hempty (N.to_nat idx) D).
  Proof.
    unfold verify_leaf_hash_inclusion, root_from_audit_path.
    destruct (N.leb_spec (N.of_nat (length D)) idx) as [|Hidx]; [discriminate|].
    destruct (Merkle.audit_loop _ _ _ _ _ _ _) as [[h rest]|] eqn:Hrun; [|discriminate].
    destruct rest; [|discriminate].
    destruct (teqb h (mth D)) eqn:Eh; [|discriminate]. intros _.
    apply teqb_spec in Eh. subst h.
    assert (Hne : D <> []) by (destruct D; simpl in *; [lia|congruence]).
    replace (N.of_nat (length D) - 1)%N with (N.of_nat (length D - 1)) in Hrun by lia.
    rewrite <- (N2Nat.id idx) in Hrun.
    pose proof (size_nat_bound _ (length D - 1) eq_refl) as Hb.
    destruct (audit_loop_unique d _ D (N.to_nat idx) _ _ _ _ Hne eq_refl ltac:(lia) Hrun) as [C|[E1 E2]].
    - apply ups_mth; [exact Hne|lia].
    - left; exact C.
    - right. split; [exact E1|]. rewrite E2, app_nil_r. symmetry.
      apply (rfc_path_bu T hc hempty d (length D)); lia.
  Qed.

  (** the root is determined by the other inputs *)
  Lemma incl_root_determined leaf idx proof r1 r2 size :
    verify_leaf_hash_inclusion T teqb hc leaf idx proof r1 size = VOk ->
    verify_leaf_hash_inclusion T teqb hc leaf idx proof r2 size = VOk -> r1 = r2.
  Proof.
    unfold verify_leaf_hash_inclusion, root_from_audit_path.
    destruct (size <=? idx)%N; [discriminate|].
    destruct (Merkle.audit_loop _ _ _ _ _ _ _) as [[h [|x rest]]|]; try discriminate.
    destruct (teqb h r1) eqn:E1; [|discriminate]. destruct (teqb h r2) eqn:E2; [|discriminate].
    intros _ _. apply teqb_spec in E1. apply teqb_spec in E2. congruence.
  Qed.

  (** * Inclusion: completeness on the bottom-up sibling list *)
  Lemma path_bu_nonempty d : forall f i L, N.size_nat (N.of_nat (length L - 1)) = f ->
    0 < i -> i <= length L - 1 -> path_bu T hc d f i L <> [].
  Proof.
    induction f as [|f IH]; intros i L Hf H0 Hi.
    - apply size_nat_0 in Hf. lia.
    - pose proof (size_nat_S _ _ Hf) as [Hl0 Hf']. rewrite Ndiv2_of_nat in Hf'.
      assert (Hne : L <> []) by (destruct L; simpl in *; [lia|congruence]).
      rewrite <- (up_last_index L Hne) in Hf'.
      cbn [path_bu]. unfold sib. odd_cases i; [simpl; congruence|].
      destruct (i <? length L - 1); [simpl; congruence|]. cbn [app].
      apply IH; [exact Hf' | lia | rewrite (up_last_index L Hne); lia].
  Qed.

  Lemma audit_loop_complete d : forall f L i rest,
    L <> [] -> N.size_nat (N.of_nat (length L - 1)) = f -> i < length L ->
    exists top, ups f L = [top] /\
      audit_loop f (nth i L d) (N.of_nat i) (N.of_nat (length L - 1)) (path_bu T hc d f i L ++ rest)
      = Some (top, rest).
  Proof.
    induction f as [|f IH]; intros L i rest Hne Hf Hi.
    - apply size_nat_0 in Hf.
      destruct L as [|x [|y l]]; simpl in *; try congruence; try lia.
      assert (i = 0) by lia. subst. exists x. auto.
    - pose proof (size_nat_S _ _ Hf) as [Hl0 Hf'].
      assert (Hlen : 2 <= length L) by lia.
      rewrite Ndiv2_of_nat in Hf'.
      assert (Hup : up L <> []) by (rewrite up_nil_iff; exact Hne).
      pose proof (up_last_index L Hne) as Hli.
      rewrite <- Hli in Hf'.
      assert (Hi' : i / 2 < length (up L)) by (rewrite up_length; lia).
      destruct (IH (up L) (i / 2) rest Hup Hf' Hi') as (top & Htop & Hrun).
      exists top. split; [exact Htop|].
      cbn [Merkle.audit_loop path_bu]. unfold sib.
      rewrite Nodd_of_nat, Nltb_of_nat, !Ndiv2_of_nat, <- Hli.
      odd_cases i.
      + cbn [app]. rewrite <- Hrun. f_equal.
        rewrite (up_nth_pair T hc d L (i / 2)) by lia. f_equal; f_equal; lia.
      + destruct (Nat.ltb_spec i (length L - 1)) as [Hlt|Hge].
        * cbn [app]. rewrite <- Hrun. f_equal.
          rewrite (up_nth_pair T hc d L (i / 2)) by lia. f_equal; f_equal; lia.
        * cbn [app].
          destruct (path_bu T hc d f (i / 2) (up L) ++ rest) as [|p q] eqn:Ep.
          { exfalso. apply app_eq_nil in Ep. destruct Ep as [Ep _].
            revert Ep. apply path_bu_nonempty; try assumption; lia. }
          rewrite <- Hrun. f_equal.
          rewrite (up_nth_last T hc d L (i / 2)) by lia. f_equal; lia.
  Qed.

  Theorem incl_complete_lists d (D : list T) (i : nat) : i < length D ->
    verify_leaf_hash_inclusion T teqb hc (nth i D d) (N.of_nat i)
      (rfc_path T hc hempty i D) (mth D) (N.of_nat (length D)) = VOk.
  Proof.
    intro Hi.
    assert (Hne : D <> []) by (destruct D; simpl in *; [lia|congruence]).
    unfold verify_leaf_hash_inclusion, root_from_audit_path.
    destruct (N.leb_spec (N.of_nat (length D)) (N.of_nat i)) as [|_]; [lia|].
    replace (N.of_nat (length D) - 1)%N with (N.of_nat (length D - 1)) by lia.
    set (f := N.size_nat (N.of_nat (length D - 1))).
    pose proof (size_nat_bound f (length D - 1) eq_refl) as Hb.
    rewrite (rfc_path_bu T hc hempty d (length D) D f i) by lia.
    destruct (audit_loop_complete d f D i [] Hne eq_refl Hi) as (top & Htop & Hrun).
    rewrite app_nil_r in Hrun. rewrite Hrun.
    rewrite (ups_mth T hc hempty) in Htop by (assumption || lia). inversion Htop; subst.
    assert (teqb (mth D) (mth D) = true) as -> by (apply teqb_spec; reflexivity).
    reflexivity.
  Qed.

  (** * Consistency *)
  Notation cons_loop := (cons_loop T hc).
  Notation up_loop := (up_loop T hc).
  Notation old_x := (old_x T hc).

  Definition top_is (L : list T) (r : T) : Prop := exists F, ups F L = [r].

  Lemma top_is_up L r : top_is L r -> top_is (up L) r.
  Proof.
    intros [F H]. destruct F as [|F].
    - simpl in H. subst L. exists 0. reflexivity.
    - exists F. exact H.
  Qed.

  Lemma strip_ones_spec : forall f i l,
    strip_ones f (N.of_nat i) (N.of_nat l) =
      (N.of_nat (i / 2 ^ tones f i), N.of_nat (l / 2 ^ tones f i)).
  Proof.
    induction f as [|f IH]; intros i l; cbn [strip_ones tones].
    - change (2 ^ 0) with 1. rewrite !Nat.div_1_r. reflexivity.
    - rewrite Nodd_of_nat. destruct (Nat.odd i).
      + rewrite !Ndiv2_of_nat, IH. rewrite Nat.pow_succ_r'.
        rewrite <- !Nat.div_div by (try pose proof (pow2_pos (tones f (i / 2))); lia). reflexivity.
      + change (2 ^ 0) with 1. rewrite !Nat.div_1_r. reflexivity.
  Qed.

  Lemma up_loop_sound d : forall f L nh proof r rest,
    L <> [] -> N.size_nat (N.of_nat (length L - 1)) = f ->
    up_loop f nh proof = Some (r, rest) -> top_is L r ->
    collision \/ nh = nth 0 L d.
  Proof.
    induction f as [|f IH]; intros L nh proof r rest Hne Hf Hrun Htop.
    - apply size_nat_0 in Hf. simpl in Hrun. inversion Hrun; subst.
      destruct L as [|x [|y l]]; simpl in *; try congruence; try lia.
      destruct Htop as [F HF]. rewrite ups_single in HF. inversion HF. right; reflexivity.
    - pose proof (size_nat_S _ _ Hf) as [Hl0 Hf'].
      assert (Hlen : 2 <= length L) by lia.
      cbn [Merkle.up_loop] in Hrun. destruct proof as [|p rest0]; [discriminate|].
      rewrite Ndiv2_of_nat in Hf'.
      assert (Hup : up L <> []) by (rewrite up_nil_iff; exact Hne).
      rewrite <- (up_last_index L Hne) in Hf'.
      destruct (IH _ _ _ _ _ Hup Hf' Hrun (top_is_up _ _ Htop)) as [C|E]; [left; exact C|].
      rewrite (up_nth_pair T hc d L 0) in E by lia.
      apply hc_inj in E. destruct E as [C|[E _]]; [left; exact C|]. right. exact E.
  Qed.

  Lemma cons_loop_sound d : forall f L i oh nh proof last' oh' nh' rest r rest2,
    L <> [] -> i < length L -> N.size_nat (N.of_nat i) = f ->
    cons_loop f (N.of_nat i) (N.of_nat (length L - 1)) oh nh proof = Some (last', oh', nh', rest) ->
    up_loop (N.size_nat last') nh' rest = Some (r, rest2) ->
    top_is L r ->
    collision \/ (nh = nth i L d /\ oh' = old_x d f i oh L).
  Proof.
    induction f as [|f IH]; intros L i oh nh proof last' oh' nh' rest r rest2 Hne Hi Hf Hrun Hup Htop.
    - apply size_nat_0 in Hf. assert (i = 0) by lia. subst i.
      cbn [Merkle.cons_loop] in Hrun. inversion Hrun; subst.
      destruct (up_loop_sound d _ L _ _ _ _ Hne eq_refl Hup Htop) as [C|E]; [left; exact C|].
      right. split; [exact E | reflexivity].
    - pose proof (size_nat_S _ _ Hf) as [Hi0 Hf']. rewrite Ndiv2_of_nat in Hf'.
      assert (Hlen : 2 <= length L) by lia.
      assert (HupL : up L <> []) by (rewrite up_nil_iff; exact Hne).
      assert (Hi' : i / 2 < length (up L)) by (rewrite up_length; lia).
      cbn [Merkle.cons_loop MerkleSpec.old_x] in Hrun |- *.
      rewrite Nodd_of_nat, Nltb_of_nat, !Ndiv2_of_nat in Hrun.
      rewrite <- (up_last_index L Hne) in Hrun.
      odd_cases i.
      + destruct proof as [|p rest0]; [discriminate|].
        destruct (IH _ _ _ _ _ _ _ _ _ _ _ HupL Hi' Hf' Hrun Hup (top_is_up _ _ Htop)) as [C|[E1 E2]]; [left; exact C|].
        rewrite (up_nth_pair T hc d L (i / 2)) in E1 by lia.
        apply hc_inj in E1. destruct E1 as [C|[Ea Eb]]; [left; exact C|].
        right. split.
        * rewrite Eb. f_equal. lia.
        * rewrite E2, Ea. f_equal. f_equal. f_equal. lia.
      + destruct (Nat.ltb_spec i (length L - 1)) as [Hlt|Hge].
        * destruct proof as [|p rest0]; [discriminate|].
          destruct (IH _ _ _ _ _ _ _ _ _ _ _ HupL Hi' Hf' Hrun Hup (top_is_up _ _ Htop)) as [C|[E1 E2]]; [left; exact C|].
          rewrite (up_nth_pair T hc d L (i / 2)) in E1 by lia.
          apply hc_inj in E1. destruct E1 as [C|[Ea Eb]]; [left; exact C|].
          right. split; [|exact E2]. rewrite Ea. f_equal. lia.
        * destruct (IH _ _ _ _ _ _ _ _ _ _ _ HupL Hi' Hf' Hrun Hup (top_is_up _ _ Htop)) as [C|[E1 E2]]; [left; exact C|].
          rewrite (up_nth_last T hc d L (i / 2)) in E1 by lia.
          right. split; [|exact E2]. rewrite E1. f_equal. lia.
  Qed.

  (** the old tree is a prefix of the level reached by stripping the trailing ones of m-1 *)
  Lemma old_prefix_level D m t i : m <= length D -> m = (i + 1) * 2 ^ t ->
    ups t (firstn m D) = firstn (i + 1) (ups t D).
  Proof.
    intros Hm Em.
    assert (E : ups t D = ups t (firstn m D) ++ ups t (skipn m D)).
    { rewrite <- (ups_app T hc t _ _ (i + 1)) by (rewrite firstn_length; lia).
      rewrite firstn_skipn. reflexivity. }
    assert (Hl : length (ups t (firstn m D)) = i + 1).
    { apply (ups_length_mult T hc hempty). rewrite firstn_length. lia. }
    rewrite E, firstn_app, Hl, Nat.sub_diag, firstn_O, app_nil_r.
    rewrite <- Hl. symmetry. apply firstn_all.
  Qed.

  Lemma ups_last_index : forall t D, D <> [] -> length (ups t D) - 1 = (length D - 1) / 2 ^ t.
  Proof.
    induction t as [|t IH]; intros D HDne.
    - change (2 ^ 0) with 1. rewrite Nat.div_1_r. reflexivity.
    - cbn [MerkleSpec.ups]. rewrite IH by (apply up_ne; exact HDne).
      rewrite (up_last_index D HDne), Nat.pow_succ_r', Nat.div_div by (try pose proof (pow2_pos t); lia).
      reflexivity.
  Qed.

  Lemma top_is_mth L : L <> [] -> top_is L (mth L).
  Proof.
    intro H. exists (length L). apply ups_mth; [exact H|].
    clear H. induction (length L); simpl; lia.
  Qed.

  Lemma top_is_ups t L r : top_is L r -> top_is (ups t L) r.
  Proof. revert L; induction t as [|t IH]; intros L H; [exact H|]. cbn [MerkleSpec.ups]. apply IH, top_is_up, H. Qed.

  Lemma top_is_unique L r1 r2 : top_is L r1 -> top_is L r2 -> r1 = r2.
  Proof.
    intros [F1 H1] [F2 H2].
    assert (E : ups (F1 + F2) L = [r1]) by (rewrite ups_add, H1; apply ups_single).
    assert (E2 : ups (F1 + F2) L = [r2]) by (rewrite Nat.add_comm, ups_add, H2; apply ups_single).
    congruence.
  Qed.

  Theorem cons_sound_lists (D : list T) (m : nat) (old_root : T) (proof : list T) :
    0 < m -> m <= length D ->
    verify_consistency T teqb hc hempty (N.of_nat m) (N.of_nat (length D)) old_root (mth D) proof = VOk ->
    collision \/ old_root = mth (firstn m D).
  Proof.
    intros Hm0 Hmn. unfold verify_consistency.
    destruct (N.ltb_spec (N.of_nat (length D)) (N.of_nat m)) as [|_]; [lia|].
    destruct (N.eqb_spec (N.of_nat m) (N.of_nat (length D))) as [E|Hne].
    - (* equal sizes: the roots must be equal *)
      destruct (teqb old_root (mth D)) eqn:Er; cbn [negb]; [|discriminate].
      intros _. apply teqb_spec in Er. right. rewrite Er.
      assert (m = length D) by lia. subst m. rewrite firstn_all. reflexivity.
    - destruct (N.eqb_spec (N.of_nat m) 0) as [|_]; [lia|].
      assert (Hlt : m < length D) by lia.
      assert (HDne : D <> []) by (destruct D; simpl in *; [lia|congruence]).
      replace (N.of_nat m - 1)%N with (N.of_nat (m - 1)) by lia.
      replace (N.of_nat (length D) - 1)%N with (N.of_nat (length D - 1)) by lia.
      rewrite strip_ones_spec.
      set (f0 := N.size_nat (N.of_nat (m - 1))).
      pose proof (size_nat_bound f0 (m - 1) eq_refl) as Hf0.
      set (t := tones f0 (m - 1)).
      pose proof (tones_decomp f0 (m - 1)) as Hdec. fold t in Hdec.
      pose proof (tones_even f0 (m - 1) Hf0) as Heven. fold t in Heven.
      set (i := (m - 1) / 2 ^ t) in *.
      pose proof (pow2_pos t) as Hpt.
      assert (Em : m = (i + 1) * 2 ^ t) by nia.
      set (L := ups t D).
      assert (HLne : L <> []) by (apply ups_length_pos; exact HDne).
      assert (HlenL : length L - 1 = (length D - 1) / 2 ^ t) by (apply ups_last_index; exact HDne).
      rewrite <- HlenL.
      assert (HiL : i < length L).
      { assert (i <= (length D - 1) / 2 ^ t); [|lia].
        subst i. apply Nat.div_le_mono; lia. }
      assert (HtopL : top_is L (mth D)) by (apply top_is_ups, top_is_mth; exact HDne).
      assert (Hold : mth (firstn m D) = mth (firstn (S i) L)).
      { apply (top_is_unique (firstn (S i) L)).
        - replace (S i) with (i + 1) by lia. unfold L. rewrite <- (old_prefix_level D m t i) by lia.
          apply top_is_ups, top_is_mth. destruct D; simpl in *; [lia|]. destruct m; [lia|simpl; congruence].
        - apply top_is_mth. destruct L; simpl in *; [lia|congruence]. }
      destruct proof as [|p0 rest0]; [discriminate|].
      set (fi := N.size_nat (N.of_nat i)).
      pose proof (size_nat_bound fi i eq_refl) as Hfi.
      destruct (N.eqb_spec (N.of_nat i) 0) as [Ei|Ei].
      + (* the old tree is perfect: the computation starts from old_root *)
        assert (i = 0) by lia.
        destruct (Merkle.cons_loop _ _ _ _ _ _ _ _) as [[[[last' oh] nh] rest']|] eqn:Hc; [|discriminate].
        destruct (Merkle.up_loop _ _ _ _ _) as [[nh' rest'']|] eqn:Hu; [|discriminate].
        destruct (teqb nh' (mth D)) eqn:E1; cbn [negb]; [|discriminate].
        destruct (teqb oh old_root) eqn:E2; cbn [negb]; [|discriminate].
        intros _. apply teqb_spec in E1. apply teqb_spec in E2. subst nh'.
        destruct (cons_loop_sound old_root fi L i _ _ _ _ _ _ _ _ _ HLne HiL eq_refl Hc Hu HtopL) as [C|[Ea Eb]]; [left; exact C|].
        right. rewrite Hold. rewrite <- (old_x_mth T hc hempty old_root fi L i HiL Hfi). rewrite <- Ea.
        rewrite <- Eb. symmetry. exact E2.
      + destruct (Merkle.cons_loop _ _ _ _ _ _ _ _) as [[[[last' oh] nh] rest']|] eqn:Hc; [|discriminate].
        destruct (Merkle.up_loop _ _ _ _ _) as [[nh' rest'']|] eqn:Hu; [|discriminate].
        destruct (teqb nh' (mth D)) eqn:E1; cbn [negb]; [|discriminate].
        destruct (teqb oh old_root) eqn:E2; cbn [negb]; [|discriminate].
        intros _. apply teqb_spec in E1. apply teqb_spec in E2. subst nh'.
        destruct (cons_loop_sound old_root fi L i _ _ _ _ _ _ _ _ _ HLne HiL eq_refl Hc Hu HtopL) as [C|[Ea Eb]]; [left; exact C|].
        right. rewrite Hold. rewrite <- (old_x_mth T hc hempty old_root fi L i HiL Hfi). rewrite <- Ea.
        rewrite <- Eb. symmetry. exact E2.
  Qed.

  (** * Consistency: completeness on the bottom-up proof *)
  Lemma up_loop_complete d : forall f L rest,
    L <> [] -> N.size_nat (N.of_nat (length L - 1)) = f ->
    exists top, ups f L = [top] /\
      up_loop f (nth 0 L d) (path_bu T hc d f 0 L ++ rest) = Some (top, rest).
  Proof.
    induction f as [|f IH]; intros L rest Hne Hf.
    - apply size_nat_0 in Hf.
      destruct L as [|x [|y l]]; simpl in *; try congruence; try lia. exists x. auto.
    - pose proof (size_nat_S _ _ Hf) as [Hl0 Hf']. rewrite Ndiv2_of_nat in Hf'.
      assert (Hlen : 2 <= length L) by lia.
      pose proof (up_ne L Hne) as Hup.
      rewrite <- (up_last_index L Hne) in Hf'.
      destruct (IH (up L) rest Hup Hf') as (top & Htop & Hrun).
      exists top. split; [exact Htop|].
      cbn [Merkle.up_loop path_bu]. unfold sib. cbn [Nat.odd].
      destruct (Nat.ltb_spec 0 (length L - 1)); [|lia].
      cbn [app]. change (0 / 2) with 0. rewrite <- Hrun. f_equal.
      rewrite (up_nth_pair T hc d L 0) by lia. reflexivity.
  Qed.

  Lemma cons_loop_complete d : forall f L i oh rest,
    L <> [] -> i < length L -> N.size_nat (N.of_nat i) = f ->
    cons_loop f (N.of_nat i) (N.of_nat (length L - 1)) oh (nth i L d) (path_bu T hc d f i L ++ rest)
      = Some (N.of_nat (length (ups f L) - 1), old_x d f i oh L, nth 0 (ups f L) d, rest).
  Proof.
    induction f as [|f IH]; intros L i oh rest Hne Hi Hf.
    - apply size_nat_0 in Hf. assert (i = 0) by lia. subst i. reflexivity.
    - pose proof (size_nat_S _ _ Hf) as [Hi0 Hf']. rewrite Ndiv2_of_nat in Hf'.
      assert (Hlen : 2 <= length L) by lia.
      pose proof (up_ne L Hne) as HupL.
      assert (Hi' : i / 2 < length (up L)) by (rewrite up_length; lia).
      cbn [Merkle.cons_loop MerkleSpec.old_x path_bu MerkleSpec.ups]. unfold sib.
      rewrite Nodd_of_nat, Nltb_of_nat, !Ndiv2_of_nat.
      rewrite <- (up_last_index L Hne).
      odd_cases i.
      + cbn [app]. rewrite <- (IH (up L) (i / 2) _ rest HupL Hi' Hf'). f_equal.
        rewrite (up_nth_pair T hc d L (i / 2)) by lia. f_equal; f_equal; lia.
      + destruct (Nat.ltb_spec i (length L - 1)) as [Hlt|Hge].
        * cbn [app]. rewrite <- (IH (up L) (i / 2) _ rest HupL Hi' Hf'). f_equal.
          rewrite (up_nth_pair T hc d L (i / 2)) by lia. f_equal; f_equal; lia.
        * cbn [app]. rewrite <- (IH (up L) (i / 2) _ rest HupL Hi' Hf'). f_equal.
          rewrite (up_nth_last T hc d L (i / 2)) by lia. f_equal; lia.
  Qed.

  (** the part of VerifyConsistency after the trailing ones have been stripped *)
  Definition vc_tail (node last : N) (old_root new_root : T) (proof : list T) : vres :=
    match proof with
    | [] => VWrongLength
    | p0 :: rest0 =>
        let '(h0, rest) := if (node =? 0)%N then (old_root, proof) else (p0, rest0) in
        match cons_loop (N.size_nat node) node last h0 h0 rest with
        | None => VWrongLength
        | Some (last', oh, nh, rest') =>
            match up_loop (N.size_nat last') nh rest' with
            | None => VWrongLength
            | Some (nh', rest'') =>
                if negb (teqb nh' new_root) then VNewRootMismatch
                else if negb (teqb oh old_root) then VOldRootMismatch
                else match rest'' with [] => VOk | _ :: _ => VTooLong end
            end
        end
    end.

  Lemma verify_consistency_tail m n o r p : (0 < m)%N -> (m < n)%N ->
    verify_consistency T teqb hc hempty m n o r p =
      let '(node, last) := strip_ones (N.size_nat (m - 1)) (m - 1) (n - 1) in vc_tail node last o r p.
  Proof.
    intros H0 Hlt. unfold verify_consistency.
    destruct (N.ltb_spec n m); [lia|].
    destruct (N.eqb_spec m n); [lia|].
    destruct (N.eqb_spec m 0); [lia|].
    destruct (strip_ones _ _ _) as [node last]. reflexivity.
  Qed.

  Lemma teqb_refl x : teqb x x = true.
  Proof. apply teqb_spec. reflexivity. Qed.

  Lemma vc_tail_complete d L i F : L <> [] -> i < length L - 1 -> i mod 2 = 0 -> length L <= 2 ^ F ->
    vc_tail (N.of_nat i) (N.of_nat (length L - 1)) (mth (firstn (S i) L)) (mth L)
      ((if (i =? 0) && true then [] else [nth i L d]) ++ path_bu T hc d F i L) = VOk.
  Proof.
    intros HLne Hi Heven HF.
    set (fi := N.size_nat (N.of_nat i)).
    pose proof (size_nat_bound fi i eq_refl) as Hfi.
    set (L' := ups fi L).
    assert (HL'ne : L' <> []) by (apply ups_length_pos; exact HLne).
    set (f2 := N.size_nat (N.of_nat (length L' - 1))).
    pose proof (size_nat_bound f2 (length L' - 1) eq_refl) as Hf2.
    assert (Hpath : path_bu T hc d F i L = path_bu T hc d fi i L ++ path_bu T hc d f2 0 L').
    { rewrite (path_bu_rfc T hc hempty d F L i) by lia.
      rewrite <- (path_bu_rfc T hc hempty d (fi + f2) L i).
      - rewrite path_bu_add. rewrite (Nat.div_small i (2 ^ fi)) by exact Hfi. reflexivity.
      - lia.
      - pose proof (ups_length_bounds T hc hempty fi L) as [Hb1 _]. fold L' in Hb1.
        rewrite Nat.pow_add_r. pose proof (pow2_pos fi).
        assert (length L' <= 2 ^ f2) by (destruct L'; simpl in *; [congruence|lia]). nia. }
    destruct (up_loop_complete d f2 L' [] HL'ne eq_refl) as (top & Htop & Hup).
    rewrite app_nil_r in Hup.
    assert (Etop : top = mth L).
    { apply (top_is_unique L').
      - exists f2. exact Htop.
      - unfold L'. apply top_is_ups, top_is_mth. exact HLne. }
    pose proof (cons_loop_complete d fi L i) as Hc.
    rewrite Hpath. unfold vc_tail.
    destruct i as [|i'].
    - (* the old tree is perfect: start from old_root *)
      cbn [Nat.eqb andb app]. change fi with 0 in *. cbn [path_bu app] in *.
      change L' with L in *.
      destruct (path_bu T hc d f2 0 L) as [|p0 rest0] eqn:Ep.
      { exfalso. destruct f2 as [|f2']; [simpl in Hf2; lia|].
        cbn [path_bu] in Ep. unfold sib in Ep. cbn [Nat.odd] in Ep.
        destruct (Nat.ltb_spec 0 (length L - 1)); [|lia]. cbn in Ep. discriminate. }
      cbn [N.of_nat N.eqb N.size_nat Merkle.cons_loop].
      assert (E0 : mth (firstn 1 L) = nth 0 L d) by (destruct L as [|x l]; [congruence|reflexivity]).
      rewrite E0. fold f2. rewrite Hup, Etop, !teqb_refl. reflexivity.
    - cbn [Nat.eqb andb app].
      destruct (N.eqb_spec (N.of_nat (S i')) 0) as [|_]; [lia|].
      fold fi.
      rewrite (Hc (nth (S i') L d) (path_bu T hc d f2 0 L') HLne ltac:(lia) eq_refl).
      fold L'. fold f2. rewrite Hup, Etop, teqb_refl.
      rewrite (old_x_mth T hc hempty d fi L (S i') ltac:(lia) Hfi), teqb_refl.
      reflexivity.
  Qed.

  Theorem cons_complete_lists d (D : list T) (m : nat) : 0 < m -> m < length D ->
    verify_consistency T teqb hc hempty (N.of_nat m) (N.of_nat (length D))
      (mth (firstn m D)) (mth D) (cons_bu T hc d (m - 1) D true) = VOk.
  Proof.
    intros Hm0 Hlt.
    rewrite verify_consistency_tail by lia.
    assert (HDne : D <> []) by (destruct D; simpl in *; [lia|congruence]).
    replace (N.of_nat m - 1)%N with (N.of_nat (m - 1)) by lia.
    replace (N.of_nat (length D) - 1)%N with (N.of_nat (length D - 1)) by lia.
    rewrite strip_ones_spec.
    pose proof (size_nat_bound _ (m - 1) eq_refl) as Hf0.
    rewrite (tones_fuel _ _ Hf0). clear Hf0.
    destruct (tones_spec (m - 1)) as [Hdec Heven].
    unfold cons_bu.
    set (t := tones (m - 1) (m - 1)) in *. set (i := (m - 1) / 2 ^ t) in *.
    pose proof (pow2_pos t) as Hpt.
    assert (Em : m = (i + 1) * 2 ^ t) by (rewrite Nat.mul_add_distr_r; lia).
    set (L := ups t D).
    assert (HLne : L <> []) by (apply ups_length_pos; exact HDne).
    pose proof (ups_last_index t D HDne) as HlenL. fold L in HlenL.
    rewrite <- HlenL.
    assert (HiL : i < length L - 1).
    { rewrite HlenL. apply Nat.div_le_lower_bound; [lia|].
      rewrite Nat.mul_add_distr_r in Em. rewrite Nat.mul_comm. lia. }
    assert (Hold : mth (firstn m D) = mth (firstn (S i) L)).
    { apply (top_is_unique (firstn (S i) L)).
      - replace (S i) with (i + 1) by lia. unfold L. rewrite <- (old_prefix_level D m t i) by lia.
        apply top_is_ups, top_is_mth. destruct D; simpl in *; [lia|]. destruct m; [lia|simpl; congruence].
      - apply top_is_mth. destruct L; simpl in *; [lia|congruence]. }
    rewrite Hold, <- (mth_ups T hc hempty t D HDne). fold L.
    apply vc_tail_complete; try assumption.
    pose proof (ups_length_le T hc hempty t D). fold L in H.
    pose proof (Nat.pow_gt_lin_r 2 (length D) ltac:(lia)). lia.
  Qed.
End Verify.
