(** Proofs for C38: the wallet client (Model/Wallet.v) shows the same accounts after a reload and
    opens each of them with exactly its current password. *)
From Coq Require Import List Bool String NArith ZArith Arith Lia.
Import ListNotations.
From Ont Require Import Model.Wallet.
Local Open Scope string_scope.

(** ** string-keyed maps *)
Section MapLemmas.
  Context {V : Type}.
  Implicit Types m : smap V.

  Lemma mget_mdel : forall m k k', mget k' (mdel k m) = if String.eqb k' k then None else mget k' m.
  Proof.
    induction m as [|[k0 v0] r IH]; intros k k'; simpl.
    - destruct (String.eqb k' k); reflexivity.
    - destruct (String.eqb_spec k k0) as [->|Hne]; simpl.
      + rewrite IH. destruct (String.eqb_spec k' k0); reflexivity.
      + rewrite IH. destruct (String.eqb_spec k' k0) as [->|]; [|reflexivity].
        destruct (String.eqb_spec k0 k); congruence.
  Qed.

  Lemma mget_mset : forall m k v k', mget k' (mset k v m) = if String.eqb k' k then Some v else mget k' m.
  Proof.
    intros. unfold mset. simpl. destruct (String.eqb_spec k' k); [reflexivity|].
    rewrite mget_mdel. destruct (String.eqb_spec k' k); congruence.
  Qed.

  Lemma mget_in_keys : forall m k v, mget k m = Some v -> In k (map fst m).
  Proof.
    induction m as [|[k0 v0] r IH]; simpl; intros k v H; [discriminate|].
    destruct (String.eqb_spec k k0); [left; congruence|right; eauto].
  Qed.

  Lemma mget_none_keys : forall m k, mget k m = None -> ~ In k (map fst m).
  Proof.
    induction m as [|[k0 v0] r IH]; simpl; intros k H; [tauto|].
    destruct (String.eqb_spec k k0); [discriminate|]. intros [E|E]; [congruence|]. eapply IH; eauto.
  Qed.

  Lemma mdel_notin : forall m k, mget k m = None -> mdel k m = m.
  Proof.
    induction m as [|[k0 v0] r IH]; simpl; intros k H; [reflexivity|].
    destruct (String.eqb_spec k k0); [discriminate|]. simpl. f_equal. apply IH; assumption.
  Qed.

  Lemma mdel_keys_incl : forall m k x, In x (map fst (mdel k m)) -> In x (map fst m) /\ x <> k.
  Proof.
    induction m as [|[k0 v0] r IH]; simpl; intros k x H; [tauto|].
    destruct (String.eqb_spec k k0); simpl in H.
    - apply IH in H. tauto.
    - destruct H as [<-|H]; [split; [tauto|congruence]|]. apply IH in H. tauto.
  Qed.

  Lemma mdel_nodup : forall m k, NoDup (map fst m) -> NoDup (map fst (mdel k m)).
  Proof.
    induction m as [|[k0 v0] r IH]; simpl; intros k H; [constructor|].
    inversion H; subst. destruct (String.eqb k k0); simpl; [auto|].
    constructor; [|auto]. intros Hin. apply mdel_keys_incl in Hin. tauto.
  Qed.

  Lemma mset_nodup : forall m k v, NoDup (map fst m) -> NoDup (map fst (mset k v m)).
  Proof.
    intros. unfold mset. simpl. constructor.
    - intros Hin. apply mdel_keys_incl in Hin. tauto.
    - apply mdel_nodup; assumption.
  Qed.

  Lemma mdel_length : forall m k v, NoDup (map fst m) -> mget k m = Some v ->
    S (List.length (mdel k m)) = List.length m.
  Proof.
    induction m as [|[k0 v0] r IH]; simpl; intros k v Hnd H; [discriminate|].
    inversion Hnd; subst. destruct (String.eqb_spec k k0) as [->|Hne]; simpl.
    - rewrite mdel_notin; [reflexivity|].
      destruct (mget k0 r) eqn:E; [|reflexivity]. apply mget_in_keys in E. tauto.
    - f_equal. eapply IH; eauto.
  Qed.

  Lemma mmem_true : forall m k, mmem k m = true <-> exists v, mget k m = Some v.
  Proof.
    intros. unfold mmem. destruct (mget k m); split; intros H; eauto; try discriminate.
    destruct H; discriminate.
  Qed.

  Lemma mmem_false : forall m k, mmem k m = false <-> mget k m = None.
  Proof. intros. unfold mmem. destruct (mget k m); split; intros; congruence. Qed.
End MapLemmas.

Lemma option_ext : forall {A} (o1 o2 : option A) (Q : A -> Prop),
  (forall x, o1 = Some x <-> Q x) -> (forall x, o2 = Some x <-> Q x) -> o1 = o2.
Proof.
  intros A o1 o2 Q H1 H2. destruct o1 as [x|].
  - symmetry. apply H2, H1. reflexivity.
  - destruct o2 as [y|]; [|reflexivity]. apply H1, H2. reflexivity.
Qed.

(** ** filter-map *)
Lemma in_omap : forall {A B} (f : A -> option B) l y, In y (omap f l) <-> exists x, In x l /\ f x = Some y.
Proof.
  intros. unfold omap. rewrite in_flat_map. split.
  - intros (x & Hx & Hy). exists x. split; [assumption|]. destruct (f x); simpl in Hy; [|tauto].
    destruct Hy; [congruence|tauto].
  - intros (x & Hx & Hy). exists x. split; [assumption|]. rewrite Hy. left. reflexivity.
Qed.

Lemma omap_total : forall {A B} (f : A -> option B) l,
  Forall (fun x => f x <> None) l -> map Some (omap f l) = map f l.
Proof.
  induction l as [|x r IH]; intros H; [reflexivity|]. inversion H; subst.
  unfold omap in *. simpl. destruct (f x) eqn:E; [|congruence]. simpl. f_equal. apply IH; assumption.
Qed.

Lemma omap_length : forall {A B} (f : A -> option B) l,
  Forall (fun x => f x <> None) l -> List.length (omap f l) = List.length l.
Proof. intros. rewrite <- (map_length Some), omap_total by assumption. apply map_length. Qed.

Lemma omap_nth : forall {A B} (f : A -> option B) l n,
  Forall (fun x => f x <> None) l ->
  nth_error (omap f l) n = match nth_error l n with Some x => f x | None => None end.
Proof.
  intros A B f l n H.
  assert (E : nth_error (map Some (omap f l)) n = nth_error (map f l) n) by (rewrite omap_total; auto).
  rewrite !nth_error_map in E.
  destruct (nth_error (omap f l) n), (nth_error l n); simpl in E; try congruence.
Qed.

(** ** the signature-scheme tables (regenerated from the code): a scheme that checkSigScheme
    accepts has a name GetScheme resolves. *)
Lemma check_implies_known : forall alg sch, check_sig_scheme alg sch = true -> scheme_known sch = true.
Proof.
  assert (T : forallb (fun r => forallb scheme_known (snd r)) check_sig_scheme_table = true) by (vm_compute; reflexivity).
  intros alg sch H. unfold check_sig_scheme in H.
  destruct (find _ check_sig_scheme_table) as [r|] eqn:F; [|discriminate].
  apply find_some in F. destruct F as [Hin _].
  rewrite forallb_forall in T. specialize (T r Hin). rewrite forallb_forall in T.
  apply existsb_exists in H. destruct H as (s & Hs & E). apply N.eqb_eq in E. subst s. auto.
Qed.

(** ** small list facts *)
Lemma filter_neq_length : forall (l : list nat) id, NoDup l -> In id l ->
  S (List.length (filter (fun j => negb (Nat.eqb j id)) l)) = List.length l.
Proof.
  induction l as [|j r IH]; simpl; intros id Hnd Hin; [tauto|].
  inversion Hnd; subst. destruct (Nat.eqb_spec j id) as [->|Hne]; simpl.
  - f_equal. clear IH Hin Hnd. induction r as [|k r IH]; simpl; [reflexivity|].
    destruct (Nat.eqb_spec k id) as [->|]; simpl.
    + exfalso. apply H1. left. reflexivity.
    + f_equal. apply IH.
      * intros Hin. apply H1. right. assumption.
      * inversion H2; assumption.
  - f_equal. apply IH; [assumption|]. destruct Hin; [congruence|assumption].
Qed.

Lemma nodup_snoc : forall {A} (l : list A) n, NoDup l -> ~ In n l -> NoDup (l ++ [n])%list.
Proof.
  induction l as [|x r IH]; simpl; intros n Hnd Hn.
  - constructor; [tauto|constructor].
  - inversion Hnd; subst. constructor.
    + rewrite in_app_iff. simpl. intuition congruence.
    + apply IH; [assumption|tauto].
Qed.

Lemma omap_nth_seq : forall {A} (L : list A), omap (nth_error L) (seq 0 (List.length L)) = L.
Proof.
  intros A. assert (G : forall (L pre : list A), omap (nth_error (pre ++ L)%list) (seq (List.length pre) (List.length L)) = L).
  { induction L as [|x r IH]; intros pre; [reflexivity|].
    simpl. unfold omap. simpl. rewrite nth_error_app2 by lia. rewrite Nat.sub_diag. simpl. f_equal.
    specialize (IH (pre ++ [x])%list). rewrite <- app_assoc in IH. simpl in IH.
    rewrite app_length in IH. simpl in IH. rewrite Nat.add_1_r in IH. exact IH. }
  intros L. exact (G L []).
Qed.

Lemma scrypt_eqb_eq : forall a b, scrypt_eqb a b = true <-> a = b.
Proof.
  intros [[[n1 r1] p1] d1] [[[n2 r2] p2] d2]. unfold scrypt_eqb. rewrite !andb_true_iff, !N.eqb_eq.
  split; [intros [[[-> ->] ->] ->]; reflexivity|intros E; inversion E; auto].
Qed.

(** The two guards and the three call sites, as the translator reads them from the source
    (Gen/WalletConsts.v). If one of the repairs is reverted the flag flips and these stop checking. *)
Lemma guard_held_address_on : addaccount_refuses_held_address = true.
Proof. reflexivity. Qed.
Lemma guard_empty_password_on : changepassword_refuses_empty = true.
Proof. reflexivity. Qed.
Lemma sites_use_wallet_scrypt :
  newaccount_uses_wallet_scrypt = true /\ changepassword_uses_wallet_scrypt = true /\ getaccount_uses_wallet_scrypt = true.
Proof. repeat split; reflexivity. Qed.

Section WalletProofs.
  Variables key blob : Type.
  Variable enc : ectx -> string -> key -> blob.
  Variable dec : ectx -> string -> blob -> option key.

  Notation wallet := (wallet blob).
  Notation acct := (acct blob).
  Notation op := (op key).
  Notation res := (res key).
  Notation step := (step key blob enc dec).
  Notation run := (run key blob enc dec).
  Notation caller_ok := (caller_ok key blob enc dec).
  Notation get_account := (get_account key blob dec).
  Notation get_account_by_address := (get_account_by_address key blob dec).
  Notation decrypt := (decrypt key blob dec).
  Notation add_account_data := (add_account_data key blob).
  Notation new_account := (new_account key blob enc).
  Notation import_account := (import_account key blob enc).
  Notation delete_account := (delete_account key blob dec).
  Notation set_default_account := (set_default_account key blob).
  Notation set_label := (set_label key blob).
  Notation change_password := (change_password key blob enc dec).
  Notation change_sig_scheme := (change_sig_scheme key blob).

  (** *** heap *)
  Lemma nth_upd : forall (h : list acct) id f j,
    nth_error (upd blob h id f) j = if Nat.eqb j id then option_map f (nth_error h j) else nth_error h j.
  Proof.
    induction h as [|x r IH]; intros id f j; simpl.
    - assert (E : nth_error (@nil acct) j = None) by (destruct j; reflexivity). rewrite E.
      destruct (Nat.eqb j id); reflexivity.
    - destruct id, j; simpl; try reflexivity. apply IH.
  Qed.

  Lemma upd_length : forall (h : list acct) id f, List.length (upd blob h id f) = List.length h.
  Proof. induction h as [|x r IH]; intros [|id] f; simpl; auto. Qed.

  Definition P_id (w : wallet) (p : acct -> bool) (id : nat) : bool :=
    match deref blob w id with Some x => p x | None => false end.

  Definition addr_eq (a : string) (x : acct) : bool := String.eqb (a_addr blob x) a.
  Definition label_eq (l : string) (x : acct) : bool := String.eqb (a_label blob x) l.

  (** The maps and the default pointer are exactly what a scan of the slice finds (and therefore
      addresses, non-empty labels and the default flag are unique in the slice). The entry of
      accLabels for the empty label is unconstrained. *)
  Record Inv (w : wallet) : Prop := {
    iH : Forall (fun id => id < List.length (w_heap blob w)) (w_list blob w);
    iU : NoDup (w_list blob w);
    iK : NoDup (map fst (w_addrs blob w));
    iN : List.length (w_addrs blob w) = List.length (w_list blob w);
    iA : forall a id, mget a (w_addrs blob w) = Some id <-> In id (w_list blob w) /\ P_id w (addr_eq a) id = true;
    iL : forall l, l <> "" -> forall id,
           mget l (w_labels blob w) = Some id <-> In id (w_list blob w) /\ P_id w (label_eq l) id = true;
    iD : forall id, w_default blob w = Some id <-> In id (w_list blob w) /\ P_id w (a_default blob) id = true
  }.

  Lemma inv_deref : forall w id, Inv w -> In id (w_list blob w) -> exists x, deref blob w id = Some x.
  Proof.
    intros w id I Hin. pose proof (iH w I) as H. rewrite Forall_forall in H. specialize (H id Hin).
    unfold deref. destruct (nth_error (w_heap blob w) id) eqn:E; [eauto|].
    apply nth_error_None in E. lia.
  Qed.

  Lemma inv_total : forall w, Inv w -> Forall (fun id => deref blob w id <> None) (w_list blob w).
  Proof.
    intros w I. apply Forall_forall. intros id Hin. destruct (inv_deref w id I Hin) as [x E]. congruence.
  Qed.

  Lemma accts_in : forall (w : wallet) x,
    In x (accts blob w) <-> exists id, In id (w_list blob w) /\ deref blob w id = Some x.
  Proof. intros. unfold accts. apply in_omap. Qed.

  (** *** what the getters return, in terms of the slice contents only *)
  Lemma meta_by_address_spec : forall w, Inv w -> forall a x,
    get_meta_by_address blob w a = Some x <-> In x (accts blob w) /\ a_addr blob x = a.
  Proof.
    intros w I a x. unfold get_meta_by_address. split.
    - destruct (mget a (w_addrs blob w)) as [id|] eqn:E; [|discriminate]. intros D.
      apply (iA w I) in E. destruct E as [Hin HP]. unfold P_id in HP. rewrite D in HP.
      split; [apply accts_in; eauto|]. apply String.eqb_eq. exact HP.
    - intros [Hin Ha]. apply accts_in in Hin. destruct Hin as (id & Hin & D).
      assert (E : mget a (w_addrs blob w) = Some id).
      { apply (iA w I). split; [assumption|]. unfold P_id. rewrite D. unfold addr_eq. apply String.eqb_eq. assumption. }
      rewrite E. assumption.
  Qed.

  Lemma meta_by_label_spec : forall w, Inv w -> forall l x,
    get_meta_by_label blob w l = Some x <-> l <> "" /\ In x (accts blob w) /\ a_label blob x = l.
  Proof.
    intros w I l x. unfold get_meta_by_label. destruct (String.eqb_spec l "") as [->|Hne].
    - split; [discriminate|]. intros [H _]. congruence.
    - split.
      + destruct (mget l (w_labels blob w)) as [id|] eqn:E; [|discriminate]. intros D.
        apply (iL w I l Hne) in E. destruct E as [Hin HP]. unfold P_id in HP. rewrite D in HP.
        split; [assumption|]. split; [apply accts_in; eauto|]. apply String.eqb_eq. exact HP.
      + intros (_ & Hin & Hl). apply accts_in in Hin. destruct Hin as (id & Hin & D).
        assert (E : mget l (w_labels blob w) = Some id).
        { apply (iL w I l Hne). split; [assumption|]. unfold P_id. rewrite D. apply String.eqb_eq. assumption. }
        rewrite E. assumption.
  Qed.

  Lemma default_meta_spec : forall w, Inv w -> forall x,
    get_default_meta blob w = Some x <-> In x (accts blob w) /\ a_default blob x = true.
  Proof.
    intros w I x. unfold get_default_meta. split.
    - destruct (w_default blob w) as [id|] eqn:E; [|discriminate]. intros D.
      apply (iD w I) in E. destruct E as [Hin HP]. unfold P_id in HP. rewrite D in HP.
      split; [apply accts_in; eauto|assumption].
    - intros [Hin Hd]. apply accts_in in Hin. destruct Hin as (id & Hin & D).
      assert (E : w_default blob w = Some id).
      { apply (iD w I). split; [assumption|]. unfold P_id. rewrite D. assumption. }
      rewrite E. assumption.
  Qed.

  Lemma meta_by_index_spec : forall w, Inv w -> forall i,
    get_meta_by_index blob w i = if (i <? 1)%Z then None else nth_error (accts blob w) (Z.to_nat (i - 1)).
  Proof.
    intros w I i. unfold get_meta_by_index, accts. destruct (i <? 1)%Z; [reflexivity|].
    rewrite omap_nth by (apply inv_total; assumption). reflexivity.
  Qed.

  Lemma account_num_spec : forall w, Inv w -> account_num blob w = List.length (accts blob w).
  Proof.
    intros w I. unfold account_num, accts. rewrite omap_length by (apply inv_total; assumption). apply (iN w I).
  Qed.

  (** *** load *)
  Definition at_ (L : list acct) (p : acct -> bool) (i : nat) : bool :=
    match nth_error L i with Some x => p x | None => false end.

  Definition uniq_in (L : list acct) (p : acct -> acct -> Prop) : Prop :=
    forall i j x y, nth_error L i = Some x -> nth_error L j = Some y -> p x y -> i = j.

  (** a wallet file in which addresses, non-empty labels and the default flag are unique *)
  Record file_ok (L : list acct) : Prop := {
    fA : uniq_in L (fun x y => a_addr blob x = a_addr blob y);
    fL : uniq_in L (fun x y => a_label blob x <> "" /\ a_label blob x = a_label blob y);
    fD : uniq_in L (fun x y => a_default blob x = true /\ a_default blob y = true)
  }.

  Record J (L : list acct) (j : nat) (w : wallet) : Prop := {
    jh : w_heap blob w = L;
    jl : w_list blob w = seq 0 (List.length L);
    jK : NoDup (map fst (w_addrs blob w));
    jN : List.length (w_addrs blob w) = j;
    jA : forall a i, mget a (w_addrs blob w) = Some i <-> i < j /\ at_ L (addr_eq a) i = true;
    jL : forall l, l <> "" -> forall i, mget l (w_labels blob w) = Some i <-> i < j /\ at_ L (label_eq l) i = true;
    jD : forall i, w_default blob w = Some i <-> i < j /\ at_ L (a_default blob) i = true
  }.

  Lemma J_step : forall L j w x, file_ok L -> J L j w -> nth_error L j = Some x ->
    J L (S j) (load_one blob w (j, x)).
  Proof.
    intros L j w x F Jw Hx. destruct Jw as [Hh Hl HK HN HA HL HD].
    assert (Hfresh : mget (a_addr blob x) (w_addrs blob w) = None).
    { destruct (mget (a_addr blob x) (w_addrs blob w)) as [i|] eqn:E; [|reflexivity].
      apply HA in E. destruct E as [Hlt Hat]. unfold at_ in Hat.
      destruct (nth_error L i) as [y|] eqn:Ey; [|discriminate]. unfold addr_eq in Hat. apply String.eqb_eq in Hat.
      assert (i = j) by (eapply (fA L F); eauto). lia. }
    constructor; cbn [load_one w_heap w_list w_addrs w_labels w_default w_params]; try assumption.
    - apply mset_nodup; assumption.
    - unfold mset. simpl. rewrite mdel_notin by assumption. congruence.
    - intros a i. rewrite mget_mset. destruct (String.eqb_spec a (a_addr blob x)) as [->|Hne].
      + split.
        * intros E. inversion E; subst i. split; [lia|]. unfold at_. rewrite Hx. unfold addr_eq. apply String.eqb_refl.
        * intros [Hlt Hat]. unfold at_ in Hat. destruct (nth_error L i) as [y|] eqn:Ey; [|discriminate].
          unfold addr_eq in Hat. apply String.eqb_eq in Hat. f_equal. symmetry. eapply (fA L F); eauto.
      + rewrite HA. split; intros [Hlt Hat]; (split; [|assumption]); [lia|].
        assert (i <> j); [|lia]. intros ->. unfold at_ in Hat. rewrite Hx in Hat. unfold addr_eq in Hat.
        apply String.eqb_eq in Hat. congruence.
    - intros l Hl0 i. destruct (String.eqb_spec (a_label blob x) "") as [E0|Hne0].
      + rewrite (HL l Hl0). split; intros [Hlt Hat]; (split; [|assumption]); [lia|].
        assert (i <> j); [|lia]. intros ->. unfold at_ in Hat. rewrite Hx in Hat. unfold label_eq in Hat.
        apply String.eqb_eq in Hat. congruence.
      + rewrite mget_mset. destruct (String.eqb_spec l (a_label blob x)) as [->|Hne].
        * split.
          -- intros E. inversion E; subst i. split; [lia|]. unfold at_. rewrite Hx. unfold label_eq. apply String.eqb_refl.
          -- intros [Hlt Hat]. unfold at_ in Hat. destruct (nth_error L i) as [y|] eqn:Ey; [|discriminate].
             unfold label_eq in Hat. apply String.eqb_eq in Hat. f_equal. symmetry.
             eapply (fL L F i j y x); eauto. split; congruence.
        * rewrite (HL l Hl0). split; intros [Hlt Hat]; (split; [|assumption]); [lia|].
          assert (i <> j); [|lia]. intros ->. unfold at_ in Hat. rewrite Hx in Hat. unfold label_eq in Hat.
          apply String.eqb_eq in Hat. congruence.
    - intros i. destruct (a_default blob x) eqn:Ed.
      + split.
        * intros E. inversion E; subst i. split; [lia|]. unfold at_. rewrite Hx. assumption.
        * intros [Hlt Hat]. unfold at_ in Hat. destruct (nth_error L i) as [y|] eqn:Ey; [|discriminate].
          f_equal. symmetry. eapply (fD L F i j y x); eauto.
      + rewrite HD. split; intros [Hlt Hat]; (split; [|assumption]); [lia|].
        assert (i <> j); [|lia]. intros ->. unfold at_ in Hat. rewrite Hx in Hat. congruence.
  Qed.

  Lemma J_fold : forall L, file_ok L -> forall post pre w, L = (pre ++ post)%list -> J L (List.length pre) w ->
    J L (List.length L) (fold_left (load_one blob) (combine (seq (List.length pre) (List.length post)) post) w).
  Proof.
    intros L F. induction post as [|x r IH]; intros pre w E Jw.
    - simpl. rewrite app_nil_r in E. subst pre. assumption.
    - simpl. specialize (IH (pre ++ [x])%list (load_one blob w (List.length pre, x))).
      rewrite app_length in IH. simpl in IH. rewrite Nat.add_1_r in IH. apply IH.
      + rewrite <- app_assoc. assumption.
      + apply J_step; try assumption. subst L. rewrite nth_error_app2 by lia. rewrite Nat.sub_diag. reflexivity.
  Qed.

  Lemma load_fields : forall l (w : wallet),
    let w' := fold_left (load_one blob) l w in
    w_params blob w' = w_params blob w /\ w_heap blob w' = w_heap blob w /\ w_list blob w' = w_list blob w.
  Proof.
    induction l as [|[i x] r IH]; intros w; simpl; [auto|].
    specialize (IH (load_one blob w (i, x))). simpl in IH. exact IH.
  Qed.

  Lemma accts_load : forall f, accts blob (load blob f) = snd f.
  Proof.
    intros [prm L]. unfold load, accts, deref. simpl.
    match goal with |- context[fold_left ?f ?l ?w] => destruct (load_fields l w) as (_ & Hh & Hl) end.
    simpl in Hh, Hl. rewrite Hh, Hl. apply omap_nth_seq.
  Qed.

  Lemma params_load : forall f, w_params blob (load blob f) = fst f.
  Proof.
    intros [prm L]. unfold load. simpl.
    match goal with |- context[fold_left ?f ?l ?w] => destruct (load_fields l w) as (Hp & _ & _) end.
    exact Hp.
  Qed.

  Lemma load_inv : forall prm L, file_ok L -> Inv (load blob (prm, L)).
  Proof.
    intros prm L F. unfold load. simpl.
    set (w0 := {| w_params := prm; w_heap := L; w_list := seq 0 (List.length L); w_addrs := []; w_labels := []; w_default := None |}).
    assert (J0 : J L 0 w0).
    { unfold w0. constructor; cbn [w_heap w_list w_addrs w_labels w_default map List.length mget].
      - reflexivity.
      - reflexivity.
      - constructor.
      - reflexivity.
      - intros a i. split; [discriminate|]. intros [H _]. lia.
      - intros l _ i. split; [discriminate|]. intros [H _]. lia.
      - intros i. split; [discriminate|]. intros [H _]. lia. }
    pose proof (J_fold L F L [] w0 eq_refl J0) as Jn. simpl in Jn.
    set (w := fold_left (load_one blob) (combine (seq 0 (List.length L)) L) w0) in *.
    destruct Jn as [Hh Hl HK HN HA HL HD].
    assert (Hin : forall i, In i (w_list blob w) <-> i < List.length L).
    { intros i. rewrite Hl, in_seq. lia. }
    assert (HP : forall p i, P_id w p i = at_ L p i).
    { intros p i. unfold P_id, at_, deref. rewrite Hh. reflexivity. }
    constructor.
    - apply Forall_forall. intros i Hi. apply Hin in Hi. rewrite Hh. assumption.
    - rewrite Hl. apply seq_NoDup.
    - assumption.
    - rewrite HN, Hl, seq_length. reflexivity.
    - intros a i. rewrite HA, Hin, HP. reflexivity.
    - intros l Hl0 i. rewrite (HL l Hl0), Hin, HP. reflexivity.
    - intros i. rewrite HD, Hin, HP. reflexivity.
  Qed.

  Lemma inv_file_ok : forall w, Inv w -> file_ok (accts blob w).
  Proof.
    intros w I.
    assert (G : forall i x, nth_error (accts blob w) i = Some x ->
                exists id, nth_error (w_list blob w) i = Some id /\ In id (w_list blob w) /\ deref blob w id = Some x).
    { intros i x H. unfold accts in H. rewrite omap_nth in H by (apply inv_total; assumption).
      destruct (nth_error (w_list blob w) i) as [id|] eqn:E; [|discriminate].
      exists id. split; [reflexivity|]. split; [eapply nth_error_In; eauto|assumption]. }
    assert (U : forall i j id, nth_error (w_list blob w) i = Some id -> nth_error (w_list blob w) j = Some id -> i = j).
    { intros i j id Hi Hj. pose proof (iU w I) as Hnd. rewrite NoDup_nth_error in Hnd. apply Hnd.
      - apply nth_error_Some. congruence.
      - congruence. }
    constructor; intros i j x y Hi Hj Hp; destruct (G i x Hi) as (id1 & N1 & In1 & D1); destruct (G j y Hj) as (id2 & N2 & In2 & D2).
    - assert (E1 : mget (a_addr blob x) (w_addrs blob w) = Some id1).
      { apply (iA w I). split; [assumption|]. unfold P_id. rewrite D1. apply String.eqb_refl. }
      assert (E2 : mget (a_addr blob x) (w_addrs blob w) = Some id2).
      { apply (iA w I). split; [assumption|]. unfold P_id. rewrite D2. unfold addr_eq. apply String.eqb_eq. congruence. }
      assert (id1 = id2) by congruence. subst id2. eapply U; eauto.
    - destruct Hp as [Hne Heq].
      assert (E1 : mget (a_label blob x) (w_labels blob w) = Some id1).
      { apply (iL w I _ Hne). split; [assumption|]. unfold P_id. rewrite D1. apply String.eqb_refl. }
      assert (E2 : mget (a_label blob x) (w_labels blob w) = Some id2).
      { apply (iL w I _ Hne). split; [assumption|]. unfold P_id. rewrite D2. unfold label_eq. apply String.eqb_eq. congruence. }
      assert (id1 = id2) by congruence. subst id2. eapply U; eauto.
    - destruct Hp as [Hx Hy].
      assert (E1 : w_default blob w = Some id1).
      { apply (iD w I). split; [assumption|]. unfold P_id. rewrite D1. assumption. }
      assert (E2 : w_default blob w = Some id2).
      { apply (iD w I). split; [assumption|]. unfold P_id. rewrite D2. assumption. }
      assert (id1 = id2) by congruence. subst id2. eapply U; eauto.
  Qed.

  Lemma accts_reload : forall w, accts blob (reload blob w) = accts blob w.
  Proof. intros. unfold reload. rewrite accts_load. reflexivity. Qed.

  Lemma params_reload : forall w, w_params blob (reload blob w) = w_params blob w.
  Proof. intros. unfold reload. rewrite params_load. reflexivity. Qed.

  Lemma reload_inv : forall w, Inv w -> Inv (reload blob w).
  Proof. intros w I. unfold reload, save. apply load_inv. apply inv_file_ok. assumption. Qed.

  (** Re-opening the wallet file shows the same thing through every getter. *)
  Lemma reload_same_view : forall w, Inv w -> same_view blob w (reload blob w).
  Proof.
    intros w I. pose proof (reload_inv w I) as I'. pose proof (accts_reload w) as EA.
    unfold same_view. split; [apply params_reload|]. split.
    { rewrite !account_num_spec by assumption. rewrite EA. reflexivity. }
    split. { intros i. rewrite !meta_by_index_spec by assumption. rewrite EA. reflexivity. }
    split. { intros a. apply (option_ext _ _ (fun x => In x (accts blob w) /\ a_addr blob x = a)).
             - intros x. rewrite (meta_by_address_spec _ I'), EA. reflexivity.
             - intros x. apply meta_by_address_spec; assumption. }
    split. { intros l. apply (option_ext _ _ (fun x => l <> "" /\ In x (accts blob w) /\ a_label blob x = l)).
             - intros x. rewrite (meta_by_label_spec _ I'), EA. reflexivity.
             - intros x. apply meta_by_label_spec; assumption. }
    apply (option_ext _ _ (fun x => In x (accts blob w) /\ a_default blob x = true)).
    - intros x. rewrite (default_meta_spec _ I'), EA. reflexivity.
    - intros x. apply default_meta_spec; assumption.
  Qed.

  (** *** the operations keep the invariant *)
  Lemma P_id_upd : forall (w w' : wallet) id f p j,
    w_heap blob w' = upd blob (w_heap blob w) id f ->
    P_id w' p j = if Nat.eqb j id then P_id w (fun x => p (f x)) j else P_id w p j.
  Proof.
    intros w w' id f p j E. unfold P_id, deref. rewrite E, nth_upd.
    destruct (Nat.eqb j id); [|reflexivity]. destruct (nth_error (w_heap blob w) j); reflexivity.
  Qed.

  Lemma inv_transfer : forall w w' : wallet,
    w_list blob w' = w_list blob w -> w_addrs blob w' = w_addrs blob w -> w_labels blob w' = w_labels blob w ->
    w_default blob w' = w_default blob w -> List.length (w_heap blob w') = List.length (w_heap blob w) ->
    (forall j a, P_id w' (addr_eq a) j = P_id w (addr_eq a) j) ->
    (forall j l, P_id w' (label_eq l) j = P_id w (label_eq l) j) ->
    (forall j, P_id w' (a_default blob) j = P_id w (a_default blob) j) ->
    Inv w -> Inv w'.
  Proof.
    intros w w' El Ea Elb Ed Eh PA PL PD I. destruct I as [H U K N A L D].
    constructor; rewrite ?El, ?Ea, ?Elb, ?Ed, ?Eh; try assumption.
    - intros a id. rewrite PA. apply A.
    - intros l Hl id. rewrite PL. apply L; assumption.
    - intros id. rewrite PD. apply D.
  Qed.

  (** a heap update that leaves address, label and default flag alone *)
  Lemma upd_inv : forall (w : wallet) id f,
    (forall x, a_addr blob (f x) = a_addr blob x /\ a_label blob (f x) = a_label blob x /\ a_default blob (f x) = a_default blob x) ->
    Inv w -> Inv (set_heap blob w (upd blob (w_heap blob w) id f)).
  Proof.
    intros w id f Hf I. apply (inv_transfer w); try reflexivity; try assumption.
    - simpl. apply upd_length.
    - intros j a. rewrite (P_id_upd w _ id f) by reflexivity. destruct (Nat.eqb j id); [|reflexivity].
      unfold P_id. destruct (deref blob w j) as [x|]; [|reflexivity]. unfold addr_eq. destruct (Hf x) as (-> & _ & _). reflexivity.
    - intros j l. rewrite (P_id_upd w _ id f) by reflexivity. destruct (Nat.eqb j id); [|reflexivity].
      unfold P_id. destruct (deref blob w j) as [x|]; [|reflexivity]. unfold label_eq. destruct (Hf x) as (_ & -> & _). reflexivity.
    - intros j. rewrite (P_id_upd w _ id f) by reflexivity. destruct (Nat.eqb j id); [|reflexivity].
      unfold P_id. destruct (deref blob w j) as [x|]; [|reflexivity]. destruct (Hf x) as (_ & _ & ->). reflexivity.
  Qed.

  Lemma meta_none_mget : forall w a, Inv w -> get_meta_by_address blob w a = None -> mget a (w_addrs blob w) = None.
  Proof.
    intros w a I H. unfold get_meta_by_address in H. destruct (mget a (w_addrs blob w)) as [id|] eqn:E; [|reflexivity].
    apply (iA w I) in E. destruct E as [Hin _]. destruct (inv_deref w id I Hin) as [x D]. congruence.
  Qed.

  Lemma add_inv : forall w x w' r, Inv w -> a_default blob x = false ->
    add_account_data w x = (w', r) -> Inv w' /\ (r <> ROk -> w' = w).
  Proof.
    intros w x w' r I Hd E. unfold add_account_data in E.
    destruct (negb (check_sig_scheme (a_alg blob x) (a_sch blob x))); [inversion E; subst; split; [assumption|reflexivity]|].
    destruct (negb (String.eqb (a_label blob x) "") && mmem (a_label blob x) (w_labels blob w)) eqn:Edup;
      [inversion E; subst; split; [assumption|reflexivity]|].
    rewrite guard_held_address_on in E. cbn [andb] in E.
    destruct (mmem (a_addr blob x) (w_addrs blob w)) eqn:Eheld; [inversion E; subst; split; [assumption|reflexivity]|].
    apply mmem_false in Eheld.
    inversion E; subst w' r; clear E. split; [|congruence].
    set (x' := if Nat.eqb (List.length (w_list blob w)) 0 then with_default blob x true else x).
    assert (Ha : a_addr blob x' = a_addr blob x) by (unfold x'; destruct (Nat.eqb _ 0); reflexivity).
    assert (Hl : a_label blob x' = a_label blob x) by (unfold x'; destruct (Nat.eqb _ 0); reflexivity).
    assert (Hxd : a_default blob x' = Nat.eqb (List.length (w_list blob w)) 0).
    { unfold x'. destruct (Nat.eqb _ 0); [reflexivity|assumption]. }
    set (n := List.length (w_heap blob w)).
    pose proof Eheld as Hnone.
    assert (Hlt : forall j, In j (w_list blob w) -> j < n).
    { intros j Hj. pose proof (iH w I) as H. rewrite Forall_forall in H. apply H; assumption. }
    set (w1 := {| w_params := w_params blob w; w_heap := (w_heap blob w ++ [x'])%list; w_list := (w_list blob w ++ [n])%list;
                  w_addrs := mset (a_addr blob x') n (w_addrs blob w);
                  w_labels := if String.eqb (a_label blob x') "" then w_labels blob w else mset (a_label blob x') n (w_labels blob w);
                  w_default := if a_default blob x' then Some n else w_default blob w |}).
    assert (Pold : forall p j, j < n -> P_id w1 p j = P_id w p j).
    { intros p j Hj. unfold P_id, deref. simpl. rewrite nth_error_app1 by assumption. reflexivity. }
    assert (Pnew : forall p, P_id w1 p n = p x').
    { intros p. unfold P_id, deref. simpl. rewrite nth_error_app2 by (unfold n; lia). unfold n. rewrite Nat.sub_diag. reflexivity. }
    assert (Hinapp : forall j, In j (w_list blob w ++ [n])%list <-> In j (w_list blob w) \/ j = n).
    { intros j. rewrite in_app_iff. simpl. intuition. }
    change (Inv w1). constructor; cbn [w1 w_heap w_list w_addrs w_labels w_default].
    - apply Forall_forall. intros j Hj. rewrite app_length. simpl. apply Hinapp in Hj. destruct Hj as [Hj| ->]; [apply Hlt in Hj|]; fold n; lia.
    - apply nodup_snoc; [apply (iU w I)|]. intros Hj. apply Hlt in Hj. lia.
    - apply mset_nodup. apply (iK w I).
    - unfold mset. simpl. rewrite Ha, mdel_notin by assumption. rewrite app_length. simpl. rewrite (iN w I). lia.
    - intros a j. rewrite mget_mset, Hinapp, Ha. destruct (String.eqb_spec a (a_addr blob x)) as [->|Hne].
      + split.
        * intros Ej. inversion Ej; subst j. split; [right; reflexivity|]. rewrite Pnew. unfold addr_eq. rewrite Ha. apply String.eqb_refl.
        * intros [[Hj| ->] HP]; [|reflexivity]. rewrite Pold in HP by (apply Hlt; assumption).
          assert (mget (a_addr blob x) (w_addrs blob w) = Some j) by (apply (iA w I); split; assumption). congruence.
      + rewrite (iA w I). split.
        * intros [Hj HP]. split; [left; assumption|]. rewrite Pold by (apply Hlt; assumption). assumption.
        * intros [[Hj| ->] HP].
          -- split; [assumption|]. rewrite Pold in HP by (apply Hlt; assumption). assumption.
          -- rewrite Pnew in HP. unfold addr_eq in HP. rewrite Ha in HP. apply String.eqb_eq in HP. congruence.
    - intros l Hl0 j. rewrite Hinapp, Hl. destruct (String.eqb_spec (a_label blob x) "") as [E0|Hne0].
      + rewrite (iL w I l Hl0). split.
        * intros [Hj HP]. split; [left; assumption|]. rewrite Pold by (apply Hlt; assumption). assumption.
        * intros [[Hj| ->] HP].
          -- split; [assumption|]. rewrite Pold in HP by (apply Hlt; assumption). assumption.
          -- rewrite Pnew in HP. unfold label_eq in HP. rewrite Hl in HP. apply String.eqb_eq in HP. congruence.
      + assert (Hnl : mget (a_label blob x) (w_labels blob w) = None).
        { apply mmem_false. destruct (String.eqb (a_label blob x) ""); simpl in Edup; [|assumption].
          apply String.eqb_neq in Hne0. congruence. }
        rewrite mget_mset. destruct (String.eqb_spec l (a_label blob x)) as [->|Hne].
        * split.
          -- intros Ej. inversion Ej; subst j. split; [right; reflexivity|]. rewrite Pnew. unfold label_eq. rewrite Hl. apply String.eqb_refl.
          -- intros [[Hj| ->] HP]; [|reflexivity]. rewrite Pold in HP by (apply Hlt; assumption).
             assert (mget (a_label blob x) (w_labels blob w) = Some j) by (apply (iL w I _ Hne0); split; assumption). congruence.
        * rewrite (iL w I l Hl0). split.
          -- intros [Hj HP]. split; [left; assumption|]. rewrite Pold by (apply Hlt; assumption). assumption.
          -- intros [[Hj| ->] HP].
             ++ split; [assumption|]. rewrite Pold in HP by (apply Hlt; assumption). assumption.
             ++ rewrite Pnew in HP. unfold label_eq in HP. rewrite Hl in HP. apply String.eqb_eq in HP. congruence.
    - intros j. rewrite Hinapp, Hxd. destruct (Nat.eqb_spec (List.length (w_list blob w)) 0) as [E0|Hne0].
      + apply length_zero_iff_nil in E0. split.
        * intros Ej. inversion Ej; subst j. split; [right; reflexivity|]. rewrite Pnew, Hxd. reflexivity.
        * intros [[Hj| ->] _]; [|reflexivity]. rewrite E0 in Hj. destruct Hj.
      + rewrite (iD w I). split.
        * intros [Hj HP]. split; [left; assumption|]. rewrite Pold by (apply Hlt; assumption). assumption.
        * intros [[Hj| ->] HP].
          -- split; [assumption|]. rewrite Pold in HP by (apply Hlt; assumption). assumption.
          -- rewrite Pnew, Hxd in HP. discriminate.
  Qed.

  Lemma del_first_filter : forall (h : list acct) a (l : list nat) id,
    NoDup l -> In id l -> addr_is blob h a id = true ->
    (forall j, In j l -> addr_is blob h a j = true -> j = id) ->
    del_first blob h a l = filter (fun j => negb (Nat.eqb j id)) l.
  Proof.
    induction l as [|j r IH]; simpl; intros id Hnd Hin Hid Hu; [reflexivity|].
    inversion Hnd; subst.
    destruct (addr_is blob h a j) eqn:Ej.
    - assert (j = id) by (apply Hu; auto). subst j. rewrite Nat.eqb_refl. simpl.
      symmetry. clear - H1. induction r as [|k r IH]; simpl; [reflexivity|].
      destruct (Nat.eqb_spec k id) as [->|]; simpl.
      + exfalso. apply H1. left. reflexivity.
      + f_equal. apply IH. intros Hin. apply H1. right. assumption.
    - destruct (Nat.eqb_spec j id) as [->|Hne]; [congruence|]. simpl. f_equal.
      apply IH; auto. destruct Hin; [congruence|assumption].
  Qed.

  Lemma delete_inv : forall w addr pwd, Inv w -> Inv (fst (delete_account w addr pwd)).
  Proof.
    intros w addr pwd I. unfold delete_account.
    destruct (mget addr (w_addrs blob w)) as [id|] eqn:Eid; [|assumption].
    destruct (deref blob w id) as [x|] eqn:Dx; [|assumption].
    destruct (a_default blob x) eqn:Edef; [assumption|].
    destruct (get_account w x pwd) eqn:Eopen; try assumption. simpl.
    pose proof (proj1 (iA w I addr id) Eid) as [Hin HPid].
    assert (Hax : a_addr blob x = addr).
    { unfold P_id in HPid. rewrite Dx in HPid. apply String.eqb_eq. exact HPid. }
    assert (Hdf : del_first blob (w_heap blob w) addr (w_list blob w) = filter (fun j => negb (Nat.eqb j id)) (w_list blob w)).
    { apply del_first_filter; [apply (iU w I)|assumption|exact HPid|].
      intros j Hj HPj. assert (mget addr (w_addrs blob w) = Some j) by (apply (iA w I); split; assumption). congruence. }
    rewrite Hdf.
    set (w1 := {| w_params := w_params blob w; w_heap := w_heap blob w;
                  w_list := filter (fun j => negb (Nat.eqb j id)) (w_list blob w);
                  w_addrs := mdel addr (w_addrs blob w);
                  w_labels := if String.eqb (a_label blob x) "" then w_labels blob w else mdel (a_label blob x) (w_labels blob w);
                  w_default := w_default blob w |}).
    assert (HP : forall p j, P_id w1 p j = P_id w p j) by reflexivity.
    assert (Hinf : forall j, In j (w_list blob w1) <-> In j (w_list blob w) /\ j <> id).
    { intros j. simpl. rewrite filter_In. destruct (Nat.eqb_spec j id); simpl; intuition congruence. }
    constructor.
    - apply Forall_forall. intros j Hj. apply Hinf in Hj. destruct Hj as [Hj _].
      pose proof (iH w I) as H. rewrite Forall_forall in H. apply H; assumption.
    - simpl. apply NoDup_filter. apply (iU w I).
    - simpl. apply mdel_nodup. apply (iK w I).
    - simpl. pose proof (mdel_length _ _ _ (iK w I) Eid) as E1.
      pose proof (filter_neq_length _ id (iU w I) Hin) as E2. pose proof (iN w I). lia.
    - intros a j. rewrite Hinf, HP. cbn [w1 w_addrs]. rewrite mget_mdel. destruct (String.eqb_spec a addr) as [->|Hne].
      + split; [discriminate|]. intros [[Hj Hne] HPj].
        assert (mget addr (w_addrs blob w) = Some j) by (apply (iA w I); split; assumption). congruence.
      + rewrite (iA w I). split; [|tauto]. intros [Hj HPj]. split; [|assumption]. split; [assumption|].
        intros ->. unfold P_id in HPj. rewrite Dx in HPj. unfold addr_eq in HPj. apply String.eqb_eq in HPj. congruence.
    - intros l Hl0 j. rewrite Hinf, HP. cbn [w1 w_labels].
      assert (Hidl : P_id w (label_eq l) id = true -> a_label blob x = l).
      { unfold P_id. rewrite Dx. unfold label_eq. apply String.eqb_eq. }
      destruct (String.eqb_spec (a_label blob x) "") as [E0|Hne0].
      + rewrite (iL w I l Hl0). split; [|tauto]. intros [Hj HPj]. split; [|assumption]. split; [assumption|].
        intros ->. apply Hidl in HPj. congruence.
      + rewrite mget_mdel. destruct (String.eqb_spec l (a_label blob x)) as [->|Hne].
        * split; [discriminate|]. intros [[Hj Hne] HPj].
          assert (E1 : mget (a_label blob x) (w_labels blob w) = Some j) by (apply (iL w I _ Hne0); split; assumption).
          assert (E2 : mget (a_label blob x) (w_labels blob w) = Some id).
          { apply (iL w I _ Hne0). split; [assumption|]. unfold P_id. rewrite Dx. apply String.eqb_refl. }
          congruence.
        * rewrite (iL w I l Hl0). split; [|tauto]. intros [Hj HPj]. split; [|assumption]. split; [assumption|].
          intros ->. apply Hidl in HPj. congruence.
    - intros j. rewrite Hinf, HP. cbn [w1 w_default]. rewrite (iD w I). split; [|tauto].
      intros [Hj HPj]. split; [|assumption]. split; [assumption|].
      intros ->. unfold P_id in HPj. rewrite Dx in HPj. congruence.
  Qed.

  Lemma set_default_inv : forall w addr, Inv w -> Inv (fst (set_default_account w addr)).
  Proof.
    intros w addr I. unfold set_default_account.
    destruct (match get_default_meta blob w with Some d => String.eqb (a_addr blob d) addr | None => false end); [assumption|].
    destruct (mget addr (w_addrs blob w)) as [id|] eqn:Eid; [|assumption]. simpl.
    pose proof (proj1 (iA w I addr id) Eid) as [Hin HPid].
    destruct (inv_deref w id I Hin) as [x Dx].
    set (h1 := match w_default blob w with Some d => upd blob (w_heap blob w) d (fun x => with_default blob x false) | None => w_heap blob w end).
    set (w1 := {| w_params := w_params blob w; w_heap := upd blob h1 id (fun x => with_default blob x true);
                  w_list := w_list blob w; w_addrs := w_addrs blob w; w_labels := w_labels blob w; w_default := Some id |}).
    set (w0 := set_heap blob w h1).
    assert (P0 : forall p, (forall x d, p (with_default blob x d) = p x) -> forall j, P_id w0 p j = P_id w p j).
    { intros p Hp j. unfold w0, h1. destruct (w_default blob w) as [d|]; [|reflexivity].
      rewrite (P_id_upd w _ d (fun x => with_default blob x false)) by reflexivity.
      destruct (Nat.eqb j d); [|reflexivity]. unfold P_id. destruct (deref blob w j); [apply Hp|reflexivity]. }
    assert (P1 : forall p, (forall x d, p (with_default blob x d) = p x) -> forall j, P_id w1 p j = P_id w p j).
    { intros p Hp j. rewrite (P_id_upd w0 w1 id (fun x => with_default blob x true)) by reflexivity.
      destruct (Nat.eqb j id).
      - rewrite <- (P0 p Hp j). unfold P_id. destruct (deref blob w0 j); [apply Hp|reflexivity].
      - apply P0; assumption. }
    assert (Hlen : List.length (w_heap blob w1) = List.length (w_heap blob w)).
    { simpl. rewrite upd_length. unfold h1. destruct (w_default blob w); [apply upd_length|reflexivity]. }
    constructor; cbn [w1 w_list w_addrs w_labels w_default]; try apply I.
    - fold w1. rewrite Hlen. apply (iH w I).
    - intros a j. fold w1. rewrite P1 by reflexivity. apply (iA w I).
    - intros l Hl0 j. fold w1. rewrite P1 by reflexivity. apply (iL w I); assumption.
    - intros j. fold w1.
      assert (Eid1 : P_id w1 (a_default blob) id = true).
      { rewrite (P_id_upd w0 w1 id (fun x => with_default blob x true)) by reflexivity. rewrite Nat.eqb_refl.
        unfold P_id. destruct (deref blob w0 id) eqn:E0; [reflexivity|].
        unfold w0, deref in E0. simpl in E0. apply nth_error_None in E0.
        assert (List.length h1 = List.length (w_heap blob w)) by (unfold h1; destruct (w_default blob w); [apply upd_length|reflexivity]).
        assert (id < List.length (w_heap blob w)); [|lia]. apply nth_error_Some. unfold deref in Dx. congruence. }
      split.
      + intros E. inversion E; subst j. split; assumption.
      + intros [Hj HPj]. f_equal. destruct (Nat.eqb_spec j id) as [->|Hne]; [reflexivity|]. exfalso.
        rewrite (P_id_upd w0 w1 id (fun x => with_default blob x true)) in HPj by reflexivity.
        apply Nat.eqb_neq in Hne. rewrite Hne in HPj. unfold w0, h1 in HPj.
        destruct (w_default blob w) as [d|] eqn:Ed.
        * rewrite (P_id_upd w _ d (fun x => with_default blob x false)) in HPj by reflexivity.
          destruct (Nat.eqb_spec j d) as [->|Hnd].
          -- unfold P_id in HPj. destruct (deref blob w d); discriminate.
          -- assert (w_default blob w = Some j) by (apply (iD w I); split; assumption). congruence.
        * assert (w_default blob w = Some j) by (apply (iD w I); split; assumption). congruence.
  Qed.

  Lemma set_label_inv : forall w addr label, Inv w -> Inv (fst (set_label w addr label)).
  Proof.
    intros w addr label I. unfold set_label.
    destruct (mmem label (w_labels blob w)) eqn:Emem; [assumption|]. apply mmem_false in Emem.
    destruct (mget addr (w_addrs blob w)) as [id|] eqn:Eid; [|assumption].
    destruct (deref blob w id) as [x|] eqn:Dx; [|assumption].
    destruct (String.eqb_spec (a_label blob x) label) as [Esame|Hdiff]; [assumption|]. simpl.
    pose proof (proj1 (iA w I addr id) Eid) as [Hin HPid].
    set (w1 := {| w_params := w_params blob w; w_heap := upd blob (w_heap blob w) id (fun y => with_label blob y label);
                  w_list := w_list blob w; w_addrs := w_addrs blob w;
                  w_labels := mset label id (mdel (a_label blob x) (w_labels blob w)); w_default := w_default blob w |}).
    assert (P1 : forall p j, P_id w1 p j = if Nat.eqb j id then p (with_label blob x label) else P_id w p j).
    { intros p j. rewrite (P_id_upd w w1 id (fun y => with_label blob y label)) by reflexivity.
      destruct (Nat.eqb_spec j id) as [->|]; [|reflexivity]. unfold P_id. rewrite Dx. reflexivity. }
    assert (P1s : forall p, p (with_label blob x label) = p x -> forall j, P_id w1 p j = P_id w p j).
    { intros p Hp j. rewrite P1. destruct (Nat.eqb_spec j id) as [->|]; [|reflexivity]. unfold P_id. rewrite Dx. assumption. }
    constructor; cbn [w1 w_list w_addrs w_labels w_default]; try apply I.
    - fold w1. simpl. rewrite upd_length. apply (iH w I).
    - intros a j. fold w1. rewrite P1s by reflexivity. apply (iA w I).
    - intros l Hl0 j. fold w1. rewrite P1. rewrite mget_mset, mget_mdel.
      destruct (String.eqb_spec l label) as [->|Hnl].
      + split.
        * intros E. inversion E; subst j. split; [assumption|]. rewrite Nat.eqb_refl. unfold label_eq. simpl. apply String.eqb_refl.
        * intros [Hj HPj]. f_equal. destruct (Nat.eqb_spec j id) as [->|Hne]; [reflexivity|].
          assert (mget label (w_labels blob w) = Some j) by (apply (iL w I _ Hl0); split; assumption). congruence.
      + destruct (Nat.eqb_spec j id) as [->|Hne].
        * unfold label_eq. simpl. split.
          -- destruct (String.eqb_spec l (a_label blob x)) as [->|Hnx]; [discriminate|].
             intros E. apply (iL w I _ Hl0) in E. destruct E as [_ E]. unfold P_id in E. rewrite Dx in E.
             unfold label_eq in E. apply String.eqb_eq in E. congruence.
          -- intros [_ E]. apply String.eqb_eq in E. congruence.
        * destruct (String.eqb_spec l (a_label blob x)) as [->|Hnx].
          -- split; [discriminate|]. intros [Hj HPj].
             assert (E1 : mget (a_label blob x) (w_labels blob w) = Some j) by (apply (iL w I _ Hl0); split; assumption).
             assert (E2 : mget (a_label blob x) (w_labels blob w) = Some id).
             { apply (iL w I _ Hl0). split; [assumption|]. unfold P_id. rewrite Dx. apply String.eqb_refl. }
             congruence.
          -- apply (iL w I _ Hl0).
    - intros j. fold w1. rewrite P1s by reflexivity. apply (iD w I).
  Qed.

  Lemma change_password_inv : forall w addr old new, Inv w -> Inv (fst (change_password w addr old new)).
  Proof.
    intros w addr old new I. unfold change_password.
    destruct (changepassword_refuses_empty && String.eqb new ""); [assumption|].
    destruct (String.eqb old new); [assumption|].
    destruct (mget addr (w_addrs blob w)) as [id|]; [|assumption].
    destruct (deref blob w id) as [x|]; [|assumption].
    destruct (decrypt _ x old); [|assumption]. simpl.
    apply upd_inv; [|assumption]. intros y. repeat split.
  Qed.

  Lemma change_sig_scheme_inv : forall w addr sch, Inv w -> Inv (fst (change_sig_scheme w addr sch)).
  Proof.
    intros w addr sch I. unfold change_sig_scheme.
    destruct (mget addr (w_addrs blob w)) as [id|]; [|assumption].
    destruct (deref blob w id) as [x|]; [|assumption].
    destruct (negb (check_sig_scheme (a_alg blob x) sch)); [assumption|]. simpl.
    apply upd_inv; [|assumption]. intros y. repeat split.
  Qed.

  Lemma new_account_inv : forall w label sch pwd ki, Inv w -> Inv (fst (new_account w label sch pwd ki)).
  Proof.
    intros w label sch pwd ki I. unfold new_account. destruct (String.eqb pwd ""); [assumption|].
    match goal with |- context[add_account_data w ?x] => destruct (add_account_data w x) as [w' r] eqn:E; apply add_inv in E; try assumption; try reflexivity end.
    destruct E as [I' _]. destruct r; assumption.
  Qed.

  Lemma import_account_inv : forall w label addr pub sch alg curve hash isdef prm pwd k, Inv w ->
    Inv (fst (import_account w label addr pub sch alg curve hash isdef prm pwd k)).
  Proof.
    intros w label addr pub sch alg curve hash isdef prm pwd k I. unfold import_account.
    match goal with |- context[add_account_data w ?x] => destruct (add_account_data w x) as [w' r] eqn:E; apply add_inv in E; try assumption; try reflexivity end.
    destruct E as [I' _]. assumption.
  Qed.

  (** every operation keeps the invariant, whatever its arguments *)
  Lemma step_inv : forall w o, Inv w -> Inv (fst (step w o)).
  Proof.
    intros w o I. destruct o; cbn [Wallet.step].
    - apply new_account_inv; assumption.
    - apply import_account_inv; assumption.
    - apply delete_inv; assumption.
    - apply set_default_inv; assumption.
    - apply set_label_inv; assumption.
    - apply change_password_inv; assumption.
    - apply change_sig_scheme_inv; assumption.
    - apply reload_inv; assumption.
  Qed.

  Lemma init_inv : forall prm, Inv (init blob prm).
  Proof.
    intros prm. constructor; simpl.
    - constructor.
    - constructor.
    - constructor.
    - reflexivity.
    - intros a id. split; [discriminate|tauto].
    - intros l _ id. split; [discriminate|tauto].
    - intros id. split; [discriminate|tauto].
  Qed.

  (** *** every listed account is the encryption, under the parameters getAccount uses and the
      account's own address, of the key the specification state records, with the recorded
      (current, non-empty) password; and the specification state records listed accounts only. *)
  Definition acct_ok (prm : scrypt) (g : ghost key) (x : acct) : Prop :=
    exists k p, mget (a_addr blob x) g = Some (k, p) /\
                a_blob blob x = enc (prm, a_addr blob x) p k /\ p <> "" /\
                check_sig_scheme (a_alg blob x) (a_sch blob x) = true.

  Record Keyed (w : wallet) (g : ghost key) : Prop := {
    kA : forall id x, In id (w_list blob w) -> deref blob w id = Some x -> acct_ok (open_params blob w) g x;
    kG : forall a v, mget a g = Some v ->
           exists id x, In id (w_list blob w) /\ deref blob w id = Some x /\ a_addr blob x = a
  }.

  Lemma open_params_eq : forall w w' : wallet, w_params blob w' = w_params blob w -> open_params blob w' = open_params blob w.
  Proof. intros w w' E. unfold open_params, site_params. rewrite E. reflexivity. Qed.

  Lemma keyed_ext : forall (w w' : wallet) g, w_params blob w' = w_params blob w -> w_heap blob w' = w_heap blob w ->
    w_list blob w' = w_list blob w -> Keyed w g -> Keyed w' g.
  Proof.
    intros w w' g Ep Eh El [A G]. constructor.
    - intros id x Hin D. rewrite (open_params_eq w w' Ep). apply (A id); [congruence|]. unfold deref in *. congruence.
    - intros a v E. destruct (G a v E) as (id & x & Hin & D & Ha). exists id, x. unfold deref in *. rewrite El, Eh. auto.
  Qed.

  Lemma addr_unique : forall w id j x y, Inv w -> In id (w_list blob w) -> In j (w_list blob w) ->
    deref blob w id = Some x -> deref blob w j = Some y -> a_addr blob x = a_addr blob y -> id = j.
  Proof.
    intros w id j x y I Hi Hj Dx Dy E.
    assert (E1 : mget (a_addr blob x) (w_addrs blob w) = Some id).
    { apply (iA w I). split; [assumption|]. unfold P_id. rewrite Dx. apply String.eqb_refl. }
    assert (E2 : mget (a_addr blob x) (w_addrs blob w) = Some j).
    { apply (iA w I). split; [assumption|]. unfold P_id. rewrite Dy. unfold addr_eq. apply String.eqb_eq. congruence. }
    congruence.
  Qed.

  Lemma keyed_upd : forall (w : wallet) g g' id f,
    Keyed w g ->
    (forall x, a_addr blob (f x) = a_addr blob x) ->
    (forall j x, In j (w_list blob w) -> deref blob w j = Some x -> acct_ok (open_params blob w) g x ->
                 acct_ok (open_params blob w) g' (if Nat.eqb j id then f x else x)) ->
    (forall a v, mget a g' = Some v -> exists v', mget a g = Some v') ->
    Keyed (set_heap blob w (upd blob (w_heap blob w) id f)) g'.
  Proof.
    intros w g g' id f [A G] Hf Hok Hg. constructor.
    - intros j y Hin D. change (open_params blob (set_heap blob w (upd blob (w_heap blob w) id f))) with (open_params blob w).
      simpl in Hin. unfold deref in D. simpl in D. rewrite nth_upd in D.
      destruct (Nat.eqb j id) eqn:Ej.
      + destruct (nth_error (w_heap blob w) j) as [x|] eqn:Dx; [|discriminate]. simpl in D. inversion D; subst y.
        specialize (Hok j x Hin Dx (A j x Hin Dx)). rewrite Ej in Hok. exact Hok.
      + specialize (Hok j y Hin D (A j y Hin D)). rewrite Ej in Hok. exact Hok.
    - intros a v E. destruct (Hg a v E) as [v' E']. destruct (G a v' E') as (j & x & Hin & D & Ha).
      exists j. unfold deref. simpl. rewrite nth_upd. destruct (Nat.eqb j id).
      + exists (f x). unfold deref in D. rewrite D. simpl. rewrite Hf. auto.
      + exists x. auto.
  Qed.

  Lemma keyed_upd_same : forall (w : wallet) g id f,
    Keyed w g ->
    (forall x, a_addr blob (f x) = a_addr blob x /\ a_blob blob (f x) = a_blob blob x /\ a_alg blob (f x) = a_alg blob x) ->
    (forall x, deref blob w id = Some x -> check_sig_scheme (a_alg blob x) (a_sch blob x) = true ->
               check_sig_scheme (a_alg blob x) (a_sch blob (f x)) = true) ->
    Keyed (set_heap blob w (upd blob (w_heap blob w) id f)) g.
  Proof.
    intros w g id f K Hf Hs. apply (keyed_upd w g g id f K).
    - intros x. apply Hf.
    - intros j x Hin D Hok. destruct (Nat.eqb_spec j id) as [->|]; [|assumption].
      destruct Hok as (k & p & E1 & E2 & E3 & E4). destruct (Hf x) as (Fa & Fb & Fg).
      exists k, p. rewrite Fa, Fb, Fg. repeat split; auto.
    - eauto.
  Qed.

  Hypothesis Hideal : ideal_cipher enc dec.

  Lemma add_keyed : forall w g x w' r kk pp, Inv w -> Keyed w g -> a_default blob x = false ->
    a_blob blob x = enc (open_params blob w, a_addr blob x) pp kk -> pp <> "" ->
    add_account_data w x = (w', r) ->
    (r = ROk /\ Keyed w' (mset (a_addr blob x) (kk, pp) g)) \/ ((r = ESigScheme \/ r = EDupLabel \/ r = EDupAddr) /\ w' = w).
  Proof.
    intros w g x w' r kk pp I K Hd Hb Hpp E. unfold add_account_data in E.
    destruct (check_sig_scheme (a_alg blob x) (a_sch blob x)) eqn:Ecs; cbn [negb] in E; [|inversion E; subst; right; auto].
    destruct (negb (String.eqb (a_label blob x) "") && mmem (a_label blob x) (w_labels blob w)); [inversion E; subst; right; auto|].
    rewrite guard_held_address_on in E. cbn [andb] in E.
    destruct (mmem (a_addr blob x) (w_addrs blob w)) eqn:Eheld; [inversion E; subst; right; auto|].
    apply mmem_false in Eheld.
    inversion E; subst w' r; clear E. left. split; [reflexivity|].
    set (x' := if Nat.eqb (List.length (w_list blob w)) 0 then with_default blob x true else x).
    assert (Hx' : a_addr blob x' = a_addr blob x /\ a_blob blob x' = a_blob blob x /\ a_alg blob x' = a_alg blob x /\ a_sch blob x' = a_sch blob x).
    { unfold x'. destruct (Nat.eqb _ 0); repeat split. }
    destruct Hx' as (Ha & Hbl & Hal & Hsc).
    set (n := List.length (w_heap blob w)).
    assert (Hlt : forall j, In j (w_list blob w) -> j < n).
    { intros j Hj. pose proof (iH w I) as H. rewrite Forall_forall in H. apply H; assumption. }
    destruct K as [A G].
    assert (Hother : forall j y, In j (w_list blob w) -> deref blob w j = Some y -> a_addr blob y <> a_addr blob x).
    { intros j y Hj D Ey. assert (Em : mget (a_addr blob x) (w_addrs blob w) = Some j).
      { apply (iA w I). split; [assumption|]. unfold P_id. rewrite D. unfold addr_eq. apply String.eqb_eq. assumption. }
      congruence. }
    constructor; cbn [w_list w_heap].
    - intros j y Hin D. match goal with |- acct_ok (open_params blob ?ww) _ _ => change (open_params blob ww) with (open_params blob w) end.
      apply in_app_iff in Hin. destruct Hin as [Hin|[<-|[]]].
      + unfold deref in D. cbn [w_heap] in D. rewrite nth_error_app1 in D by (apply Hlt; assumption).
        destruct (A j y Hin D) as (k & p & E1 & E2 & E3 & E4). exists k, p. repeat split; auto.
        rewrite mget_mset. destruct (String.eqb_spec (a_addr blob y) (a_addr blob x)) as [Ey|]; [|assumption].
        exfalso. eapply Hother; eauto.
      + unfold deref in D. cbn [w_heap] in D. rewrite nth_error_app2 in D by (unfold n; lia). unfold n in D. rewrite Nat.sub_diag in D.
        simpl in D. inversion D; subst y. exists kk, pp. rewrite Ha, Hbl, Hal, Hsc, mget_mset, String.eqb_refl. repeat split; auto.
    - intros a v Ev. rewrite mget_mset in Ev. destruct (String.eqb_spec a (a_addr blob x)) as [->|Hne].
      + exists n, x'. split; [apply in_app_iff; right; left; reflexivity|]. split; [|assumption].
        unfold deref. cbn [w_heap]. rewrite nth_error_app2 by (unfold n; lia). unfold n. rewrite Nat.sub_diag. reflexivity.
      + destruct (G a v Ev) as (j & y & Hin & D & Hay). exists j, y. split; [apply in_app_iff; left; assumption|]. split; [|assumption].
        unfold deref. cbn [w_heap]. rewrite nth_error_app1 by (apply Hlt; assumption). assumption.
  Qed.

  Lemma delete_keyed : forall w g addr pwd, Inv w -> Keyed w g ->
    Keyed (fst (delete_account w addr pwd)) (gstep key g (ODelete key addr pwd) (snd (delete_account w addr pwd))).
  Proof.
    intros w g addr pwd I K. unfold delete_account.
    destruct (mget addr (w_addrs blob w)) as [id|] eqn:Eid; [|assumption].
    destruct (deref blob w id) as [x|] eqn:Dx; [|assumption].
    destruct (a_default blob x) eqn:Edef; [assumption|].
    destruct (get_account w x pwd) eqn:Eopen; try assumption. cbn [fst snd gstep].
    pose proof (proj1 (iA w I addr id) Eid) as [Hin HPid].
    assert (Hax : a_addr blob x = addr).
    { unfold P_id in HPid. rewrite Dx in HPid. apply String.eqb_eq. exact HPid. }
    assert (Hdf : del_first blob (w_heap blob w) addr (w_list blob w) = filter (fun j => negb (Nat.eqb j id)) (w_list blob w)).
    { apply del_first_filter; [apply (iU w I)|assumption|exact HPid|].
      intros j Hj HPj. assert (mget addr (w_addrs blob w) = Some j) by (apply (iA w I); split; assumption). congruence. }
    rewrite Hdf. destruct K as [A G].
    assert (Hinf : forall j, In j (filter (fun j => negb (Nat.eqb j id)) (w_list blob w)) <-> In j (w_list blob w) /\ j <> id).
    { intros j. rewrite filter_In. destruct (Nat.eqb_spec j id); simpl; intuition congruence. }
    constructor; cbn [w_list].
    - intros j y Hj D. apply Hinf in Hj. destruct Hj as [Hj Hne].
      match goal with |- acct_ok (open_params blob ?ww) _ _ => change (open_params blob ww) with (open_params blob w) end.
      change (deref blob w j = Some y) in D.
      destruct (A j y Hj D) as (k0 & p & E1 & E2 & E3 & E4). exists k0, p. repeat split; auto.
      rewrite mget_mdel. destruct (String.eqb_spec (a_addr blob y) addr) as [Ey|]; [|assumption].
      exfalso. apply Hne. symmetry. eapply (addr_unique w id j x y); eauto. congruence.
    - intros a v Ev. rewrite mget_mdel in Ev. destruct (String.eqb_spec a addr) as [->|Hne]; [discriminate|].
      destruct (G a v Ev) as (j & y & Hj & D & Hay). exists j, y. split; [|split; assumption].
      apply Hinf. split; [assumption|]. intros ->. congruence.
  Qed.

  Lemma change_password_keyed : forall w g addr old new, Inv w -> Keyed w g ->
    chpwd_params blob w = open_params blob w ->
    Keyed (fst (change_password w addr old new))
          (gstep key g (OChangePwd key addr old new) (snd (change_password w addr old new))).
  Proof.
    intros w g addr old new I K Hprm. unfold change_password.
    rewrite guard_empty_password_on. cbn [andb].
    destruct (String.eqb_spec new "") as [Enew|Hnew]; [assumption|].
    destruct (String.eqb_spec old new) as [Eon|Hon].
    { cbn [fst snd gstep]. apply String.eqb_eq in Eon. rewrite Eon. assumption. }
    destruct (mget addr (w_addrs blob w)) as [id|] eqn:Eid; [|assumption].
    destruct (deref blob w id) as [x|] eqn:Dx; [|assumption].
    destruct (decrypt (chpwd_params blob w) x old) as [k'|] eqn:Edec; [|assumption].
    cbn [fst snd gstep]. apply String.eqb_neq in Hon. rewrite Hon.
    pose proof (proj1 (iA w I addr id) Eid) as [Hin HPid].
    assert (Hax : a_addr blob x = addr).
    { unfold P_id in HPid. rewrite Dx in HPid. apply String.eqb_eq. exact HPid. }
    destruct (kA w g K id x Hin Dx) as (k & p & E1 & E2 & E3 & E4).
    (* the old password is the current one and the decrypted key is the recorded one *)
    assert (Hold : old = p /\ k' = k).
    { unfold Wallet.decrypt in Edec. destruct (String.eqb old ""); [discriminate|].
      rewrite E2, Hprm in Edec. destruct Hideal as [Hd1 Hd2].
      destruct (string_dec old p) as [->|Hne].
      - rewrite Hd1 in Edec. inversion Edec. auto.
      - rewrite Hd2 in Edec by congruence. discriminate. }
    destruct Hold as [-> ->]. rewrite Hax in E1. rewrite E1.
    apply keyed_upd with (g := g); [assumption|reflexivity| |].
    - intros j y Hj Dy (k1 & p1 & F1 & F2 & F3 & F4). destruct (Nat.eqb_spec j id) as [->|Hne].
      + assert (y = x) by (unfold deref in *; congruence). subst y.
        exists k, new. cbn [with_blob a_addr a_blob a_alg a_sch]. rewrite Hax, mget_mset, String.eqb_refl, Hprm.
        repeat split; auto.
      + exists k1, p1. repeat split; auto. rewrite mget_mset.
        destruct (String.eqb_spec (a_addr blob y) addr) as [Ey|]; [|assumption].
        exfalso. apply Hne. symmetry. eapply (addr_unique w id j x y); eauto. congruence.
    - intros a v Ev. rewrite mget_mset in Ev. destruct (String.eqb_spec a addr) as [->|]; eauto.
  Qed.

  Lemma set_default_keyed : forall w g addr, Keyed w g -> Keyed (fst (set_default_account w addr)) g.
  Proof.
    intros w g addr K. unfold set_default_account.
    destruct (match get_default_meta blob w with Some d => String.eqb (a_addr blob d) addr | None => false end); [assumption|].
    destruct (mget addr (w_addrs blob w)) as [id|] eqn:Eid; [|assumption]. cbn [fst].
    set (h1 := match w_default blob w with Some d => upd blob (w_heap blob w) d (fun x => with_default blob x false) | None => w_heap blob w end).
    assert (K0 : Keyed (set_heap blob w h1) g).
    { unfold h1. destruct (w_default blob w) as [d|].
      - apply keyed_upd_same; [assumption| |]; intros y; repeat split; auto.
      - apply (keyed_ext w); auto. }
    pose proof (keyed_upd_same (set_heap blob w h1) g id (fun x => with_default blob x true) K0) as K1.
    eapply keyed_ext; [| | |apply K1]; try reflexivity; intros y; repeat split; auto.
  Qed.

  Lemma set_label_keyed : forall w g addr label, Keyed w g -> Keyed (fst (set_label w addr label)) g.
  Proof.
    intros w g addr label K. unfold set_label.
    destruct (mmem label (w_labels blob w)); [assumption|].
    destruct (mget addr (w_addrs blob w)) as [id|]; [|assumption].
    destruct (deref blob w id) as [x|]; [|assumption].
    destruct (String.eqb (a_label blob x) label); [assumption|]. cbn [fst].
    pose proof (keyed_upd_same w g id (fun y => with_label blob y label) K) as K1.
    eapply keyed_ext; [| | |apply K1]; try reflexivity; intros y; repeat split; auto.
  Qed.

  Lemma change_sig_scheme_keyed : forall w g addr sch, Keyed w g -> Keyed (fst (change_sig_scheme w addr sch)) g.
  Proof.
    intros w g addr sch K. unfold change_sig_scheme.
    destruct (mget addr (w_addrs blob w)) as [id|]; [|assumption].
    destruct (deref blob w id) as [x|] eqn:Dx; [|assumption].
    destruct (check_sig_scheme (a_alg blob x) sch) eqn:Ecs; [|assumption]. cbn [negb fst].
    apply keyed_upd_same; [assumption| |].
    - intros y. repeat split.
    - intros y Dy _. assert (y = x) by congruence. subst y. exact Ecs.
  Qed.

  Lemma reload_keyed : forall w g, Inv w -> Keyed w g -> Keyed (reload blob w) g.
  Proof.
    intros w g I [A G]. pose proof (accts_reload w) as EA. pose proof (params_reload w) as EP. constructor.
    - intros id x Hin D. rewrite (open_params_eq w _ EP).
      assert (Hx : In x (accts blob w)) by (rewrite <- EA; apply accts_in; eauto).
      apply accts_in in Hx. destruct Hx as (j & Hj & Dj). eapply A; eauto.
    - intros a v Ev. destruct (G a v Ev) as (j & x & Hj & Dj & Ha).
      assert (Hx : In x (accts blob (reload blob w))) by (rewrite EA; apply accts_in; eauto).
      apply accts_in in Hx. destruct Hx as (id & Hid & Did). eauto.
  Qed.

  (** the three call sites pass the same parameters *)
  Lemma sites_agree : forall w : wallet,
    newacct_params blob w = open_params blob w /\ chpwd_params blob w = open_params blob w.
  Proof.
    intros w. unfold newacct_params, chpwd_params, open_params.
    destruct sites_use_wallet_scrypt as (-> & -> & ->). split; reflexivity.
  Qed.

  Lemma step_keyed : forall w g o, Inv w -> Keyed w g -> op_caller_ok key blob w o ->
    Keyed (fst (step w o)) (gstep key g o (snd (step w o))).
  Proof.
    intros w g o I K C. destruct (sites_agree w) as [Snew Schp]. destruct o; cbn [Wallet.step op_caller_ok] in *.
    - (* NewAccount *)
      unfold Wallet.new_account. destruct (String.eqb_spec pwd "") as [->|Hp]; [assumption|].
      match goal with |- context[add_account_data w ?x] =>
        destruct (add_account_data w x) as [w' r] eqn:E;
        assert (Hb : a_blob blob x = enc (open_params blob w, a_addr blob x) pwd (ki_key key ki))
          by (cbn [a_blob a_addr]; rewrite Snew; reflexivity);
        destruct (add_keyed w g x w' r _ _ I K eq_refl Hb Hp E) as [[-> K']|[[-> |[-> | ->]] ->]]
      end; cbn [fst snd gstep]; assumption.
    - (* ImportAccount *)
      destruct C as (Cp & Cpw). unfold Wallet.import_account.
      match goal with |- context[add_account_data w ?x] =>
        destruct (add_account_data w x) as [w' r] eqn:E;
        assert (Hb : a_blob blob x = enc (open_params blob w, a_addr blob x) pwd k)
          by (cbn [a_blob a_addr]; rewrite Cp; reflexivity);
        destruct (add_keyed w g x w' r _ _ I K eq_refl Hb Cpw E) as [[-> K']|[[-> |[-> | ->]] ->]]
      end; cbn [fst snd gstep]; assumption.
    - apply delete_keyed; assumption.
    - cbn [gstep]. apply set_default_keyed; assumption.
    - cbn [gstep]. apply set_label_keyed; assumption.
    - apply change_password_keyed; assumption.
    - cbn [gstep]. apply change_sig_scheme_keyed; assumption.
    - cbn [fst snd gstep]. apply reload_keyed; assumption.
  Qed.

  Lemma init_keyed : forall prm, Keyed (init blob prm) [].
  Proof. intros prm. constructor; simpl; [tauto|discriminate]. Qed.

  (** *** histories *)
  Lemma run_inv : forall ops w g, Inv w -> Keyed w g -> caller_ok w ops ->
    Inv (fst (fst (run w g ops))) /\ Keyed (fst (fst (run w g ops))) (snd (fst (run w g ops))).
  Proof.
    induction ops as [|o r IH]; intros w g I K C; [simpl; auto|].
    destruct C as [Co Cr]. simpl.
    pose proof (step_inv w o I) as I1. pose proof (step_keyed w g o I K Co) as K1.
    destruct (step w o) as [w1 e] eqn:Es. cbn [fst snd] in *.
    specialize (IH w1 (gstep key g o e) I1 K1 Cr).
    destruct (run w1 (gstep key g o e) r) as [[w2 g2] es]. exact IH.
  Qed.

  (** *** the property, from the two invariants *)
  Lemma opens_when_keyed : forall w g, Inv w -> Keyed w g ->
    forall a k p, mget a g = Some (k, p) -> opens_only_with key blob dec w a k p.
  Proof.
    intros w g I K a k p Eg.
    destruct (kG w g K a _ Eg) as (id & x & Hin & D & Ha).
    destruct (kA w g K id x Hin D) as (k0 & p0 & E1 & E2 & E3 & E4).
    rewrite Ha, Eg in E1. inversion E1; subst k0 p0.
    assert (Em : get_meta_by_address blob w a = Some x).
    { apply meta_by_address_spec; [assumption|]. split; [apply accts_in; eauto|assumption]. }
    destruct Hideal as [Hd1 Hd2].
    unfold opens_only_with, Wallet.get_account_by_address. rewrite Em. cbn [open_meta].
    unfold Wallet.get_account, Wallet.decrypt. rewrite E2, Ha. split.
    - apply String.eqb_neq in E3. rewrite E3, Hd1, (check_implies_known _ _ E4). reflexivity.
    - intros p' Hne. destruct (String.eqb p' ""); [reflexivity|]. rewrite Hd2 by congruence. reflexivity.
  Qed.

  Lemma property_from_invariants : forall w g, Inv w -> Keyed w g -> wallet_property key blob dec w g.
  Proof.
    intros w g I K. pose proof (reload_inv w I) as I'. pose proof (reload_keyed w g I K) as K'.
    unfold wallet_property. split; [apply reload_same_view; assumption|]. split.
    - intros a. unfold listed. split.
      + intros (x & Hx & Ha). apply accts_in in Hx. destruct Hx as (id & Hin & D).
        destruct (kA _ g K' id x Hin D) as (k & p & E1 & _). rewrite Ha in E1. eauto.
      + intros [v Ev]. destruct (kG _ g K' a v Ev) as (id & x & Hin & D & Ha). exists x. split; [apply accts_in; eauto|assumption].
    - intros a k p Eg. eapply opens_when_keyed; eauto.
  Qed.

  (** Main theorem: every history, from an empty wallet with any scrypt parameters. *)
  Theorem wallet_persists : forall prm ops, caller_ok (init blob prm) ops ->
    wallet_property key blob dec (fst (fst (run (init blob prm) [] ops))) (snd (fst (run (init blob prm) [] ops))).
  Proof.
    intros prm ops C. destruct (run_inv ops (init blob prm) [] (init_inv prm) (init_keyed prm) C) as [I K].
    apply property_from_invariants; assumption.
  Qed.

  (** The same already holds BEFORE the reload (the in-memory client opens each account with
      exactly its current password). *)
  Theorem wallet_guards_in_memory : forall prm ops, caller_ok (init blob prm) ops ->
    let w := fst (fst (run (init blob prm) [] ops)) in
    let g := snd (fst (run (init blob prm) [] ops)) in
    forall a k p, mget a g = Some (k, p) -> opens_only_with key blob dec w a k p.
  Proof.
    intros prm ops C w g. destruct (run_inv ops (init blob prm) [] (init_inv prm) (init_keyed prm) C) as [I K].
    apply opens_when_keyed; assumption.
  Qed.

  (** An operation that reports an error (or "no such account") leaves the client unchanged. *)
  Notation is_success := (is_success key).
  Lemma add_result_cases : forall w x w' r, add_account_data w x = (w', r) ->
    r = ROk \/ ((r = ESigScheme \/ r = EDupLabel \/ r = EDupAddr) /\ w' = w).
  Proof.
    intros w x w' r E. unfold Wallet.add_account_data in E.
    destruct (negb (check_sig_scheme (a_alg blob x) (a_sch blob x))); [inversion E; auto|].
    destruct (negb (String.eqb (a_label blob x) "") && mmem (a_label blob x) (w_labels blob w)); [inversion E; auto|].
    destruct (addaccount_refuses_held_address && mmem (a_addr blob x) (w_addrs blob w)); inversion E; auto 6.
  Qed.

  Theorem failed_step_unchanged : forall w o, is_success (snd (step w o)) = false -> fst (step w o) = w.
  Proof.
    intros w o. destruct o; cbn [Wallet.step].
    - unfold Wallet.new_account. destruct (String.eqb pwd ""); [reflexivity|].
      match goal with |- context[add_account_data w ?x] => destruct (add_account_data w x) as [w' r] eqn:E end.
      apply add_result_cases in E. destruct E as [->|[[->|[->| ->]] ->]]; cbn; intros; try reflexivity; discriminate.
    - unfold Wallet.import_account.
      match goal with |- context[add_account_data w ?x] => destruct (add_account_data w x) as [w' r] eqn:E end.
      apply add_result_cases in E. destruct E as [->|[[->|[->| ->]] ->]]; cbn; intros; try reflexivity; discriminate.
    - unfold Wallet.delete_account.
      repeat match goal with
             | |- context[match ?x with _ => _ end] => destruct x eqn:?
             end; cbn [fst snd is_success]; intros; try reflexivity; try discriminate.
    - unfold Wallet.set_default_account.
      repeat match goal with
             | |- context[match ?x with _ => _ end] => destruct x eqn:?
             end; cbn [fst snd is_success]; intros; try reflexivity; try discriminate.
    - unfold Wallet.set_label.
      repeat match goal with
             | |- context[match ?x with _ => _ end] => destruct x eqn:?
             end; cbn [fst snd is_success]; intros; try reflexivity; try discriminate.
    - unfold Wallet.change_password.
      repeat match goal with
             | |- context[match ?x with _ => _ end] => destruct x eqn:?
             end; cbn [fst snd is_success]; intros; try reflexivity; try discriminate.
    - unfold Wallet.change_sig_scheme.
      repeat match goal with
             | |- context[match ?x with _ => _ end] => destruct x eqn:?
             end; cbn [fst snd is_success]; intros; try reflexivity; try discriminate.
    - cbn. discriminate.
  Qed.

  (** On a wallet with the default scrypt parameters the three call sites agree, whatever the
      source says about them. *)
  Lemma default_params_agree : forall w : wallet, w_params blob w = default_scrypt ->
    newacct_params blob w = open_params blob w /\ chpwd_params blob w = open_params blob w.
  Proof.
    intros w E. unfold newacct_params, chpwd_params, open_params, site_params. rewrite E.
    destruct newaccount_uses_wallet_scrypt, changepassword_uses_wallet_scrypt, getaccount_uses_wallet_scrypt; auto.
  Qed.

  (** *** save() failing *)
  Notation step_sf := (step_sf key blob enc dec).
  Notation run_sf := (run_sf key blob enc dec).

  (** A step whose save fails is the identity on the client (and therefore on the file, which is
      [save] of the client), and it reports an error. *)
  Theorem failed_save_is_identity : forall w o, reaches_save key blob enc dec w o = true ->
    step_sf true w o = (w, ESave).
  Proof. intros w o H. unfold Wallet.step_sf. rewrite H. reflexivity. Qed.

  Theorem failed_step_sf_unchanged : forall b w o, is_success (snd (step_sf b w o)) = false -> fst (step_sf b w o) = w.
  Proof.
    intros b w o. unfold Wallet.step_sf. destruct (b && reaches_save key blob enc dec w o); [reflexivity|].
    apply failed_step_unchanged.
  Qed.

  Lemma step_sf_ok : forall b w g o, Inv w -> Keyed w g -> op_caller_ok key blob w o ->
    Inv (fst (step_sf b w o)) /\ Keyed (fst (step_sf b w o)) (gstep key g o (snd (step_sf b w o))).
  Proof.
    intros b w g o I K C. unfold Wallet.step_sf. destruct (b && reaches_save key blob enc dec w o).
    - cbn [fst snd]. split; [assumption|]. destruct o; assumption.
    - split; [apply step_inv; assumption|apply step_keyed; assumption].
  Qed.

  Lemma run_sf_inv : forall ops w g, Inv w -> Keyed w g -> caller_ok_sf key blob enc dec w ops ->
    Inv (fst (fst (run_sf w g ops))) /\ Keyed (fst (fst (run_sf w g ops))) (snd (fst (run_sf w g ops))).
  Proof.
    induction ops as [|[b o] r IH]; intros w g I K C; [simpl; auto|].
    destruct C as [Co Cr]. simpl. destruct (step_sf_ok b w g o I K Co) as [I1 K1].
    destruct (step_sf b w o) as [w1 e] eqn:Es. cbn [fst snd] in *.
    specialize (IH w1 (gstep key g o e) I1 K1 Cr).
    destruct (run_sf w1 (gstep key g o e) r) as [[w2 g2] es]. exact IH.
  Qed.

  (** The main theorem with save failures anywhere in the history. *)
  Theorem wallet_persists_sf : forall prm ops, caller_ok_sf key blob enc dec (init blob prm) ops ->
    wallet_property key blob dec (fst (fst (run_sf (init blob prm) [] ops))) (snd (fst (run_sf (init blob prm) [] ops))).
  Proof.
    intros prm ops C. destruct (run_sf_inv ops (init blob prm) [] (init_inv prm) (init_keyed prm) C) as [I K].
    apply property_from_invariants; assumption.
  Qed.

  (** *** several wallets open in one process *)
  Notation mstep := (mstep key blob enc dec).
  Notation mrun := (mrun key blob enc dec).
  Notation mcaller_ok := (mcaller_ok key blob enc dec).
  Definition wparams (wg : wallet * ghost key) : scrypt := w_params blob (fst wg).

  Lemma add_params : forall w x, w_params blob (fst (add_account_data w x)) = w_params blob w.
  Proof.
    intros w x. unfold Wallet.add_account_data.
    repeat match goal with |- context[if ?c then _ else _] => destruct c end; reflexivity.
  Qed.

  (** no operation changes the wallet's scrypt parameters *)
  Lemma step_params : forall w o, w_params blob (fst (step w o)) = w_params blob w.
  Proof.
    intros w o. destruct o; cbn [Wallet.step].
    - unfold Wallet.new_account. destruct (String.eqb pwd ""); [reflexivity|].
      match goal with |- context[add_account_data w ?x] => pose proof (add_params w x) as P; destruct (add_account_data w x) as [w' r] end.
      destruct r; exact P.
    - unfold Wallet.import_account. apply add_params.
    - unfold Wallet.delete_account.
      repeat match goal with |- context[match ?x with _ => _ end] => destruct x eqn:? end; reflexivity.
    - unfold Wallet.set_default_account.
      repeat match goal with |- context[match ?x with _ => _ end] => destruct x eqn:? end; reflexivity.
    - unfold Wallet.set_label.
      repeat match goal with |- context[match ?x with _ => _ end] => destruct x eqn:? end; reflexivity.
    - unfold Wallet.change_password.
      repeat match goal with |- context[match ?x with _ => _ end] => destruct x eqn:? end; reflexivity.
    - unfold Wallet.change_sig_scheme.
      repeat match goal with |- context[match ?x with _ => _ end] => destruct x eqn:? end; reflexivity.
    - apply params_reload.
  Qed.

  Lemma nth_set_nth : forall {A} (l : list A) i x j, j <> i -> nth_error (set_nth l i x) j = nth_error l j.
  Proof.
    induction l as [|y r IH]; intros i x j Hne; [reflexivity|].
    destruct i, j; simpl; try reflexivity; [congruence|]. apply IH. congruence.
  Qed.

  Lemma Forall_set_nth : forall {A} (P : A -> Prop) (l : list A) i x, Forall P l -> P x -> Forall P (set_nth l i x).
  Proof.
    induction l as [|y r IH]; intros i x Hl Hx; [constructor|]. inversion Hl; subst.
    destruct i; simpl; constructor; auto.
  Qed.

  Lemma map_set_nth : forall {A B} (f : A -> B) (l : list A) i x y, nth_error l i = Some y -> f x = f y ->
    map f (set_nth l i x) = map f l.
  Proof.
    induction l as [|z r IH]; intros i x y Hn Hf; [reflexivity|].
    destruct i; simpl in *.
    - inversion Hn; subst. congruence.
    - f_equal. eapply IH; eauto.
  Qed.

  (** FRAME: an operation on wallet [i] leaves every other open wallet (client state and
      specification state) exactly as it was; opening another wallet file leaves all open wallets
      as they were. *)
  Theorem mstep_frame : forall s m j,
    match m with MOp _ i _ => j <> i | MOpen _ _ => j < List.length s end ->
    nth_error (fst (mstep s m)) j = nth_error s j.
  Proof.
    intros s m j H. destruct m as [prm|i o]; cbn [Wallet.mstep fst].
    - apply nth_error_app1. assumption.
    - destruct (nth_error s i) as [[w g]|]; [|reflexivity].
      destruct (step w o) as [w' e]. cbn [fst]. apply nth_set_nth. assumption.
  Qed.

  Definition sys_ok (s : system key blob) : Prop := Forall (fun wg => Inv (fst wg) /\ Keyed (fst wg) (snd wg)) s.

  Lemma mstep_ok : forall s m, sys_ok s -> mop_caller_ok key blob s m ->
    sys_ok (fst (mstep s m)) /\
    map wparams (fst (mstep s m)) = (map wparams s ++ match m with MOpen _ prm => [prm] | MOp _ _ _ => [] end)%list.
  Proof.
    intros s m Hs C. destruct m as [prm|i o]; cbn [Wallet.mstep fst mop_caller_ok] in *.
    - split.
      + apply Forall_app. split; [assumption|]. constructor; [|constructor]. split; [apply init_inv|apply init_keyed].
      + rewrite map_app. reflexivity.
    - rewrite app_nil_r. destruct (nth_error s i) as [[w g]|] eqn:En; [|split; [assumption|reflexivity]].
      assert (Hw : Inv w /\ Keyed w g).
      { unfold sys_ok in Hs. rewrite Forall_forall in Hs. apply (Hs (w, g)). eapply nth_error_In; eauto. }
      destruct Hw as [I K].
      pose proof (step_inv w o I) as I1. pose proof (step_keyed w g o I K C) as K1. pose proof (step_params w o) as P1.
      destruct (step w o) as [w' e]. cbn [fst snd] in *. split.
      + apply Forall_set_nth; [assumption|]. split; assumption.
      + eapply map_set_nth; eauto.
  Qed.

  Lemma mrun_ok : forall ms s, sys_ok s -> mcaller_ok s ms ->
    sys_ok (fst (mrun s ms)) /\ map wparams (fst (mrun s ms)) = (map wparams s ++ opened key ms)%list.
  Proof.
    induction ms as [|m r IH]; intros s Hs C; simpl.
    - split; [assumption|]. rewrite app_nil_r. reflexivity.
    - destruct C as [Cm Cr]. destruct (mstep_ok s m Hs Cm) as [Hs1 Hp1].
      destruct (mstep s m) as [s1 e] eqn:Em. cbn [fst] in *.
      destruct (IH s1 Hs1 Cr) as [Hs2 Hp2]. destruct (mrun s1 r) as [s2 es]. cbn [fst] in *.
      split; [assumption|]. rewrite Hp2, Hp1, <- app_assoc. f_equal. destruct m; reflexivity.
  Qed.

  (** Every open wallet, whatever was done to the others in between: it still has the parameters
      it was opened with, and it has the property. *)
  Theorem system_persists : forall ms, mcaller_ok [] ms ->
    map wparams (fst (mrun [] ms)) = opened key ms /\
    Forall (fun wg => wallet_property key blob dec (fst wg) (snd wg)) (fst (mrun [] ms)).
  Proof.
    intros ms C. destruct (mrun_ok ms [] (Forall_nil _) C) as [Hs Hp]. split; [exact Hp|].
    unfold sys_ok in Hs. rewrite Forall_forall in *. intros wg Hin. destruct (Hs wg Hin) as [I K].
    apply property_from_invariants; assumption.
  Qed.

End WalletProofs.

(** ** the executable cipher instance is ideal *)
Lemma ectx_eqb_eq : forall a b, ectx_eqb a b = true <-> a = b.
Proof.
  intros [s1 a1] [s2 a2]. unfold ectx_eqb. simpl. rewrite andb_true_iff, scrypt_eqb_eq, String.eqb_eq.
  split; [intros [-> ->]; reflexivity|intros E; inversion E; auto].
Qed.

Lemma ideal_instance : ideal_cipher ienc idec.
Proof.
  split.
  - intros c p k. unfold idec, ienc. assert (ectx_eqb c c = true) as -> by (apply ectx_eqb_eq; reflexivity).
    rewrite String.eqb_refl. reflexivity.
  - intros c p k c' p' Hne. unfold idec, ienc.
    destruct (ectx_eqb c' c) eqn:E1; [|reflexivity]. destruct (String.eqb_spec p' p) as [->|]; [|reflexivity].
    apply ectx_eqb_eq in E1. subst. congruence.
Qed.

(** ** the three former defects (repaired in the code; the histories are replayed on the
    implementation from corpus/C38 on every run), on the executable instance *)
Local Open Scope N_scope.
Definition wit_key : keyinfo N := {| ki_key := 7; ki_addr := "A1"; ki_pub := "02aa"; ki_alg := 0; ki_curve := "P-256" |}.
Definition wit_import (prm : scrypt) : op N := OImport N "main" "A1" "02aa" 1 0 "P-256" "" false prm "pw" 7.
(** a wallet exported with --low-security, then `account add` *)
Definition wit_newaccount : list (op N) := [ONew N "main" 1 "pw" wit_key].
(** the same account imported twice, then deleted once *)
Definition wit_dup_import : list (op N) := [wit_import default_scrypt; wit_import default_scrypt; ODelete N "A1" "pw"].
(** ChangePassword to the empty password *)
Definition wit_empty_pwd : list (op N) := [wit_import default_scrypt; OChangePwd N "A1" "pw" ""].

Definition irun (prm : scrypt) (ops : list (op N)) := run N iblob ienc idec (init iblob prm) [] ops.
Definition iprop (prm : scrypt) (ops : list (op N)) : Prop :=
  wallet_property N iblob idec (fst (fst (irun prm ops))) (snd (fst (irun prm ops))).

Lemma wit_results :
  snd (irun low_security_scrypt wit_newaccount) = [RKey 7] /\
  get_account_by_address N iblob idec (reload iblob (fst (fst (irun low_security_scrypt wit_newaccount)))) "A1" "pw" = RKey 7 /\
  snd (irun default_scrypt wit_dup_import) = [ROk; EDupAddr; EDeleteDefault] /\
  snd (irun default_scrypt wit_empty_pwd) = [ROk; EEmptyPwd].
Proof. vm_compute. repeat split. Qed.
