(** C03 lemmas: corollaries of the canonical form of the write set (Proofs/WriteSet.v). *)
From Coq Require Import List Bool NArith.
Import ListNotations.
From Ont Require Import Lib.Bytes Model.WriteSet Proofs.WriteSet.
Local Open Scope N_scope.

(** ** From "same last-write map" to "same observables" in one step *)

Definition same_observables (H : bytes -> bytes) (ops1 ops2 : list op) : Prop :=
  ov_write_set (ov_run ops1) = ov_write_set (ov_run ops2) /\
  ov_change_hash H (ov_run ops1) = ov_change_hash H (ov_run ops2).

Lemma same_obs_of_last_write H ops1 ops2 :
  (forall k, last_write ops1 k = last_write ops2 k) -> same_observables H ops1 ops2.
Proof. apply change_hash_order_free_proof. Qed.

Lemma bytes_eqb_refl k : bytes_eqb k k = true.
Proof. apply bytes_eqb_eq; reflexivity. Qed.

Lemma bytes_eqb_neq a b : a <> b -> bytes_eqb a b = false.
Proof.
  intro Hn. destruct (bytes_eqb a b) eqn:E; [|reflexivity]. apply bytes_eqb_eq in E. contradiction.
Qed.

(** ** An operation whose key is written again later is irrelevant *)
Lemma overwritten_last_write a x b :
  In (op_key x) (map op_key b) -> forall k, last_write (a ++ x :: b) k = last_write (a ++ b) k.
Proof.
  intros Hi k. rewrite !last_write_app. simpl.
  destruct (last_write b k) as [v|] eqn:E; [reflexivity|].
  destruct (bytes_eqb (op_key x) k) eqn:Ek; [|reflexivity].
  apply bytes_eqb_eq in Ek; subst k. apply last_write_none in E. contradiction.
Qed.

Lemma overwritten_op_irrelevant_proof H a x b :
  In (op_key x) (map op_key b) -> same_observables H (a ++ x :: b) (a ++ b).
Proof. intro Hi. apply same_obs_of_last_write, overwritten_last_write, Hi. Qed.

(** ** Operations on different keys commute *)
Lemma commute_last_write a x y b :
  op_key x <> op_key y -> forall k, last_write (a ++ x :: y :: b) k = last_write (a ++ y :: x :: b) k.
Proof.
  intros Hn k. rewrite !last_write_app. simpl.
  destruct (last_write b k) as [v|]; [reflexivity|].
  destruct (bytes_eqb (op_key y) k) eqn:Ey, (bytes_eqb (op_key x) k) eqn:Ex; try reflexivity.
  apply bytes_eqb_eq in Ey, Ex. congruence.
Qed.

Lemma ops_commute_proof H a x y b :
  op_key x <> op_key y -> same_observables H (a ++ x :: y :: b) (a ++ y :: x :: b).
Proof. intro Hn. apply same_obs_of_last_write, commute_last_write, Hn. Qed.

(** ** Re-issuing the same operation later (no write to its key in between) changes nothing *)
Lemma reissue_last_write a x m b :
  ~ In (op_key x) (map op_key m) ->
  forall k, last_write (a ++ x :: m ++ x :: b) k = last_write (a ++ x :: m ++ b) k.
Proof.
  intros Hn k. rewrite !last_write_app. simpl. rewrite !last_write_app. simpl.
  destruct (last_write b k) as [v|]; [reflexivity|].
  destruct (bytes_eqb (op_key x) k) eqn:Ek; [|reflexivity].
  apply bytes_eqb_eq in Ek; subst k.
  rewrite (proj2 (last_write_none m (op_key x)) Hn). reflexivity.
Qed.

Lemma overwrite_same_value_proof H a x m b :
  ~ In (op_key x) (map op_key m) -> same_observables H (a ++ x :: m ++ x :: b) (a ++ x :: m ++ b).
Proof. intro Hn. apply same_obs_of_last_write, reissue_last_write, Hn. Qed.

(** ** delete-then-recreate *)
Lemma delete_then_recreate_proof H a k v b :
  same_observables H (a ++ ODelete k :: OPut k v :: b) (a ++ OPut k v :: b).
Proof. apply overwritten_op_irrelevant_proof. simpl. left; reflexivity. Qed.

(** ** Which keys appear: exactly the touched ones *)
Lemma writeset_keys_proof ops k :
  In k (map fst (ov_write_set (ov_run ops))) <-> In k (map op_key ops).
Proof.
  rewrite <- last_write_some. rewrite in_map_iff. split.
  - intros [[k' v] [E Hi]]. simpl in E; subst k'. exists v. apply run_in; exact Hi.
  - intros [v Hv]. exists (k, v). split; [reflexivity|apply run_in; exact Hv].
Qed.

Lemma last_write_snoc a x k :
  last_write (a ++ [x]) k = if bytes_eqb (op_key x) k then Some (op_val x) else last_write a k.
Proof.
  rewrite last_write_app. simpl. destruct (bytes_eqb (op_key x) k); reflexivity.
Qed.

(** the entry of a key is the value of its last operation, whatever happened before *)
Lemma last_op_recorded_proof a x :
  In (op_key x, op_val x) (ov_write_set (ov_run (a ++ [x]))).
Proof. apply run_in. rewrite last_write_snoc, bytes_eqb_refl. reflexivity. Qed.

(** a key written and then restored (to any value v0, e.g. the one in the backing store) is still
    in the write set, so the history differs observably from one that never touched it *)
Lemma touched_then_restored_proof a k v1 v0 :
  In (k, v0) (ov_write_set (ov_run (a ++ [OPut k v1; OPut k v0]))) /\
  (~ In k (map op_key a) ->
   ov_write_set (ov_run (a ++ [OPut k v1; OPut k v0])) <> ov_write_set (ov_run a)).
Proof.
  assert (Hin : In (k, v0) (ov_write_set (ov_run (a ++ [OPut k v1; OPut k v0])))).
  { change [OPut k v1; OPut k v0] with ([OPut k v1] ++ [OPut k v0]). rewrite app_assoc.
    apply (last_op_recorded_proof (a ++ [OPut k v1]) (OPut k v0)). }
  split; [exact Hin|].
  intros Hn E. rewrite E in Hin. apply run_in in Hin.
  apply last_write_none in Hn. congruence.
Qed.

(** deleting a key that was never written records the key with an empty value *)
Lemma delete_untouched_recorded_proof a k :
  In (k, []) (ov_write_set (ov_run (a ++ [ODelete k]))) /\
  (~ In k (map op_key a) ->
   ov_write_set (ov_run (a ++ [ODelete k])) <> ov_write_set (ov_run a)).
Proof.
  assert (Hin : In (k, []) (ov_write_set (ov_run (a ++ [ODelete k])))).
  { apply (last_op_recorded_proof a (ODelete k)). }
  split; [exact Hin|].
  intros Hn E. rewrite E in Hin. apply run_in in Hin.
  apply last_write_none in Hn. congruence.
Qed.

(** ** What is hashed: the concatenation, entry by entry in key order, of the written fields *)
Lemma fold_write_concat {A} (g : A -> bytes) l : forall buf,
  fold_left (fun buf f => hash_write buf (g f)) l buf = buf ++ concat (map g l).
Proof.
  induction l as [|f r IH]; intro buf; simpl; [rewrite app_nil_r; reflexivity|].
  rewrite IH. unfold hash_write. rewrite app_assoc. reflexivity.
Qed.

Definition entry_bytes (e : kv) : bytes := concat (map (hfield_bytes e) change_hash_writes).

Lemma change_preimage_concat_proof m : change_preimage m = concat (map entry_bytes m).
Proof.
  unfold change_preimage, memdb_foreach.
  assert (G : forall buf, fold_left change_hash_entry m buf = buf ++ concat (map entry_bytes m)).
  { induction m as [|e r IH]; intro buf; simpl; [rewrite app_nil_r; reflexivity|].
    rewrite IH. unfold change_hash_entry. rewrite fold_write_concat.
    unfold entry_bytes. rewrite app_assoc. reflexivity. }
  apply (G []).
Qed.

(** Tie to the generated shape of ChangeHash: nothing but the ForEach callback writes to the hash. *)
Lemma change_hash_no_other_writes : change_hash_extra_writes = 0%nat.
Proof. reflexivity. Qed.
