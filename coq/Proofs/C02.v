(** Proofs/C02.v -- (1) the tie between the generated site list and the committed classification;
    (2) the two node roles execute every chain identically whenever they authorize the same accounts;
    (3) the full statement is refuted by a transaction whose raw-script address differs from the address
        of its parsed keys (F2, C17's [signers_agree]). *)
From Coq Require Import List Bool NArith String Permutation.
Import ListNotations.
From Ont Require Import Lib.Bytes Model.WriteSet Model.Merkle Model.Determinism Model.MapSites
     Gen.MapRanges Proofs.Determinism.
Local Open Scope N_scope.

(** * 1. Every iteration site of the current source is classified *)

Lemma map_ranges_classified_proof :
  map_scan_complete = true /\ all_sites_classified classification map_ranges = true.
Proof. split; vm_compute; reflexivity. Qed.

Lemma signer_uses_classified_proof : all_uses_classified signer_use_table signer_uses = true.
Proof. vm_compute; reflexivity. Qed.

(** every package-level variable written during execution is classified *)
Lemma process_globals_classified_proof : all_globals_classified globals_table process_globals = true.
Proof. vm_compute; reflexivity. Qed.

Lemma global_finding_classes_are :
  global_finding_classes globals_table = ["procstate:gas-table-keeps-unparsable-param"]%string.
Proof. vm_compute. reflexivity. Qed.

(** lifting the boolean sweep: every generated site has a class *)
Lemma every_site_has_a_class :
  forall s, In s map_ranges -> exists c, lookup_class classification (key_of_generated s) = Some c.
Proof.
  intros s Hin. destruct map_ranges_classified_proof as [_ H].
  unfold all_sites_classified in H. rewrite forallb_forall in H. specialize (H s Hin).
  destruct (lookup_class classification (key_of_generated s)) as [c|]; [exists c; reflexivity|discriminate].
Qed.

(** ... and the lemma a class names is a theorem *)
Lemma classified_lemmas_hold :
  forall e, In e classification ->
  match snd e with Proved l => lemma_statement l | Argued l _ => lemma_statement l | _ => True end.
Proof. intros [k c] _. destruct c; simpl; try exact I; apply all_lemmas_hold. Qed.

(** the order-dependent sites are exactly these (the check's known-finding classes; the governance
    class covers the two commitDpos variants) *)
Lemma finding_classes_are :
  finding_classes classification =
  ["maporder:governance-blackquit-events"; "maporder:governance-blackquit-events";
   "maporder:cycle-detector-first-entry"]%string.
Proof. vm_compute. reflexivity. Qed.

(** * 2. Execution by the two roles *)
Section ExecProofs.
  Variable payload : Type.
  Variable H : bytes -> bytes.
  Variable hc : bytes -> bytes -> bytes.
  Variables store notify blockctx : Type.
  Variable handle : (bytes -> bool) -> store -> blockctx -> overlay -> tx payload -> overlay * notify.
  Variable commit : store -> list kv -> store.

  Notation txT := (tx payload).
  Notation roleT := (role payload).

  (** the execution engine reaches the signer list only through CheckWitness (tie: [signer_uses]) *)
  Definition handle_ext : Prop :=
    forall w1 w2 : bytes -> bool, (forall a, w1 a = w2 a) ->
    forall st ctx ov t, handle w1 st ctx ov t = handle w2 st ctx ov t.

  (** two roles authorize the same accounts for t *)
  Definition same_witness (r1 r2 : roleT) (t : txT) : Prop :=
    match signers r1 t, signers r2 t with
    | Some s1, Some s2 => forall a, check_witness s1 a = check_witness s2 a
    | None, None => True
    | _, _ => False
    end.

  Lemma exec_txs_agree (r1 r2 : roleT) st ctx : handle_ext ->
    forall txs, (forall t, In t txs -> same_witness r1 r2 t) ->
    forall ov acc, exec_txs payload store notify blockctx handle r1 st ctx ov acc txs =
                   exec_txs payload store notify blockctx handle r2 st ctx ov acc txs.
  Proof.
    intros Hext txs. induction txs as [|t rest IH]; intros Hw ov acc; simpl; [reflexivity|].
    assert (Ht := Hw t (or_introl eq_refl)). unfold same_witness in Ht.
    destruct (signers r1 t) as [s1|], (signers r2 t) as [s2|]; try contradiction; [|reflexivity].
    rewrite (Hext (check_witness s1) (check_witness s2) Ht).
    destruct (handle (check_witness s2) st ctx ov t) as [ov' n].
    apply IH. intros t' Hin. apply Hw. right. exact Hin.
  Qed.

  Lemma exec_block_agree (r1 r2 : roleT) st tree ctx txs : handle_ext ->
    (forall t, In t txs -> same_witness r1 r2 t) ->
    exec_block payload H hc store notify blockctx handle r1 st tree ctx txs =
    exec_block payload H hc store notify blockctx handle r2 st tree ctx txs.
  Proof. intros Hext Hw. unfold exec_block. rewrite (exec_txs_agree r1 r2 st ctx Hext txs Hw). reflexivity. Qed.

  Definition all_txs (P : txT -> Prop) (blocks : list (blockctx * list txT)) : Prop :=
    forall b t, In b blocks -> In t (snd b) -> P t.

  Lemma run_chain_agree (r1 r2 : roleT) : handle_ext ->
    forall blocks, all_txs (same_witness r1 r2) blocks ->
    forall st tree, run_chain payload H hc store notify blockctx handle commit r1 st tree blocks =
                    run_chain payload H hc store notify blockctx handle commit r2 st tree blocks.
  Proof.
    intros Hext blocks. induction blocks as [|[ctx txs] rest IH]; intros Hw st tree; simpl; [reflexivity|].
    rewrite (exec_block_agree r1 r2 st tree ctx txs Hext).
    2:{ intros t Hin. apply (Hw (ctx, txs) t); [left; reflexivity|exact Hin]. }
    destruct (exec_block payload H hc store notify blockctx handle r2 st tree ctx txs) as [res|]; [|reflexivity].
    destruct (append_hash bytes hc tree (r_hash notify res)) as [[tree' p]|]; [|reflexivity].
    rewrite IH; [reflexivity|]. intros b t Hb Ht. apply (Hw b t); [right; exact Hb|exact Ht].
  Qed.

  (** ** what the roles see *)

  (** the order in which a member's validator visited its `address` map: some permutation of the set *)
  Definition valid_order (o : txT -> list bytes) (t : txT) : Prop := Permutation (o t) (validator_set t).

  (** VerifyTransaction accepted t *)
  Definition accepted (t : txT) : Prop :=
    match tx_eip t with
    | Some _ => True
    | None => forallb sg_ok (tx_sigs t) && check_witness (validator_set t) (tx_payer t) = true
    end.

  (** C17's obligation: the addresses derived from the raw verification scripts are, as a set, the
      addresses the validator derived from the parsed keys *)
  Definition signers_agree (t : txT) : Prop :=
    tx_eip t = None -> forall a, In a (map sg_script_addr (tx_sigs t)) <-> In a (validator_set t).

  Lemma collect_keys_tagged (l : list bytes) : collect_keys (map (fun a => (a, true)) l) = l.
  Proof. rewrite collect_keys_spec, map_map. simpl. apply map_id. Qed.

  Lemma gsa_nonempty (l : list bytes) (t : txT) : l <> [] -> get_signature_addresses l t = l.
  Proof. destruct l; [congruence|reflexivity]. Qed.

  (** any two consensus members authorize the same accounts, whatever their map orders were *)
  Lemma members_same_witness o1 o2 t : valid_order o1 t -> valid_order o2 t ->
    same_witness (Member o1) (Member o2) t.
  Proof.
    unfold valid_order, same_witness, signers, validate. intros H1 H2.
    destruct (tx_eip t) as [a|]; [intro; reflexivity|].
    destruct (forallb sg_ok (tx_sigs t) && check_witness (validator_set t) (tx_payer t)); [|exact I].
    rewrite !collect_keys_tagged.
    assert (HP : Permutation (o1 t) (o2 t)) by (rewrite H1, H2; reflexivity).
    destruct (o1 t) as [|x r] eqn:E1.
    - apply Permutation_nil in HP. rewrite HP. intro; reflexivity.
    - destruct (o2 t) as [|y r'] eqn:E2; [symmetry in HP; apply Permutation_nil in HP; discriminate|].
      cbn [get_signature_addresses]. apply check_witness_perm. exact HP.
  Qed.

  Lemma member_syncer_same_witness o t : accepted t -> valid_order o t -> signers_agree t ->
    same_witness (Member o) Syncer t.
  Proof.
    unfold accepted, valid_order, signers_agree, same_witness, signers, validate, decoded_signed_addr.
    intros Hacc Ho Hag. destruct (tx_eip t) as [a|]; [intro; reflexivity|].
    rewrite Hacc. rewrite collect_keys_tagged.
    apply andb_prop in Hacc. destruct Hacc as [_ Hpayer]. apply check_witness_in in Hpayer.
    assert (Hin : In (tx_payer t) (o t)) by (eapply Permutation_in; [symmetry; exact Ho|exact Hpayer]).
    rewrite gsa_nonempty by (intro E; rewrite E in Hin; exact Hin).
    cbn [get_signature_addresses]. apply check_witness_set_eq. intro a. rewrite (Hag eq_refl a).
    split; apply Permutation_in; [exact Ho|symmetry; exact Ho].
  Qed.

  (** ** the theorems *)

  (** consensus members agree with each other on every chain: the validator's map order is invisible *)
  Theorem members_agree_proof : handle_ext ->
    forall o1 o2 blocks, all_txs (valid_order o1) blocks -> all_txs (valid_order o2) blocks ->
    forall st tree,
    run_chain payload H hc store notify blockctx handle commit (Member o1) st tree blocks =
    run_chain payload H hc store notify blockctx handle commit (Member o2) st tree blocks.
  Proof.
    intros Hext o1 o2 blocks H1 H2 st tree. apply run_chain_agree; [exact Hext|].
    intros b t Hb Ht. apply members_same_witness; [apply (H1 b t)|apply (H2 b t)]; assumption.
  Qed.

  (** a member and a syncing / restarted node agree on every chain of accepted transactions for
      which C17's [signers_agree] holds *)
  Theorem nodes_agree_partial_proof : handle_ext ->
    forall o blocks, all_txs accepted blocks -> all_txs (valid_order o) blocks -> all_txs signers_agree blocks ->
    forall st tree,
    run_chain payload H hc store notify blockctx handle commit (Member o) st tree blocks =
    run_chain payload H hc store notify blockctx handle commit Syncer st tree blocks.
  Proof.
    intros Hext o blocks Ha Ho Hs st tree. apply run_chain_agree; [exact Hext|].
    intros b t Hb Ht. apply member_syncer_same_witness; [apply (Ha b t)|apply (Ho b t)|apply (Hs b t)]; assumption.
  Qed.

  (** a syncing node never fails for lack of a signer list (it does not run the validator) *)
  Lemma syncer_signers_defined (t : txT) : exists s, signers Syncer t = Some s.
  Proof. eexists. reflexivity. Qed.

  (** a member that accepted every transaction has a signer list for each *)
  Lemma member_signers_defined o (t : txT) : accepted t -> exists s, signers (Member o) t = Some s.
  Proof.
    unfold accepted, signers, validate. destruct (tx_eip t); [eexists; reflexivity|].
    intro Hc. rewrite Hc. eexists. reflexivity.
  Qed.
End ExecProofs.

(** * 3. The full statement, and its refutation by a signer-set divergence *)

(** "Executing the same sequence of blocks from the same genesis produces identical state merkle
    roots, write sets, events ... whether the node verified the transactions itself or received them
    sealed": for every execution engine that reaches the signer list through CheckWitness only, every
    chain of accepted transactions, every map order of the validator. *)
Definition c02_statement : Prop :=
  forall (payload store notify blockctx : Type) (H : bytes -> bytes) (hc : bytes -> bytes -> bytes)
         (handle : (bytes -> bool) -> store -> blockctx -> overlay -> tx payload -> overlay * notify)
         (commit : store -> list kv -> store),
  handle_ext payload store notify blockctx handle ->
  forall o blocks, all_txs payload blockctx (accepted payload) blocks ->
                   all_txs payload blockctx (valid_order payload o) blocks ->
  forall st tree,
  run_chain payload H hc store notify blockctx handle commit (Member o) st tree blocks =
  run_chain payload H hc store notify blockctx handle commit Syncer st tree blocks.

(** witness: one signature set whose raw-script address is [9] while the address of its parsed keys is
    [7] (an unsorted multi-signature script, an Ethereum-type key, a non-canonical key encoding: F2),
    payer [7]; a contract that records whether [7] witnessed the transaction. *)
Definition f2_tx : tx unit := mk_tx None [7] [mk_sig [9] [7] true] tt.
Definition f2_handle (w : bytes -> bool) (_ _ : unit) (ov : overlay) (_ : tx unit) : overlay * bool :=
  if w [7] then (ov_put [1] [1] ov, true) else (ov, false).

Theorem c02_statement_refuted_proof : ~ c02_statement.
Proof.
  intro Hst.
  specialize (Hst unit unit bool unit (fun b => b) (fun a b => (a ++ b)%list) f2_handle (fun s _ => s)).
  assert (Hext : handle_ext unit unit bool unit f2_handle).
  { intros w1 w2 Hw st ctx ov t. unfold f2_handle. rewrite (Hw [7]). reflexivity. }
  specialize (Hst Hext (fun t => validator_set t) [(tt, [f2_tx])]).
  assert (Hacc : all_txs unit unit (accepted unit) [(tt, [f2_tx])]).
  { intros b t [Hb|[]] Ht; subst b; simpl in Ht; destruct Ht as [Ht|[]]; subst t. vm_compute. reflexivity. }
  assert (Hord : all_txs unit unit (valid_order unit (fun t => validator_set t)) [(tt, [f2_tx])]).
  { intros b t _ _. unfold valid_order. reflexivity. }
  specialize (Hst Hacc Hord tt (mk_ctree bytes 0 [] None)).
  vm_compute in Hst. discriminate Hst.
Qed.

(** the same, as an implication from ANY accepted transaction on which the two derivations differ:
    there is a contract that tells the roles apart (so C17's finding is a C02 finding) *)
Lemma divergence_propagates (t : tx unit) (a : bytes) :
  accepted unit t -> tx_eip t = None ->
  In a (validator_set t) -> ~ In a (map sg_script_addr (tx_sigs t)) ->
  exists handle : (bytes -> bool) -> unit -> unit -> overlay -> tx unit -> overlay * bool,
    handle_ext unit unit bool unit handle /\
    exec_block unit (fun b => b) (fun x y => (x ++ y)%list) unit bool unit handle (Member (fun t => validator_set t)) tt
               (mk_ctree bytes 0 [] None) tt [t] <>
    exec_block unit (fun b => b) (fun x y => (x ++ y)%list) unit bool unit handle Syncer tt
               (mk_ctree bytes 0 [] None) tt [t].
Proof.
  intros Hacc Heip Hin Hnin.
  exists (fun w _ _ ov _ => (ov, w a)). split.
  - intros w1 w2 Hw st ctx ov t'. rewrite (Hw a). reflexivity.
  - unfold exec_block, exec_txs, signers, validate, decoded_signed_addr. unfold accepted in Hacc.
    rewrite Heip in *. rewrite Hacc. rewrite collect_keys_tagged.
    assert (Hne : validator_set t <> []) by (intro E; rewrite E in Hin; exact Hin).
    rewrite gsa_nonempty by exact Hne. simpl.
    assert (H1 : check_witness (validator_set t) a = true) by (apply check_witness_in; exact Hin).
    assert (H2 : check_witness (map sg_script_addr (tx_sigs t)) a = false).
    { destruct (check_witness (map sg_script_addr (tx_sigs t)) a) eqn:E; [|reflexivity].
      apply check_witness_in in E. contradiction. }
    rewrite H1, H2. intro Heq. injection Heq as Heq. discriminate Heq.
Qed.
