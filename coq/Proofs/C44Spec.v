(** C44, part 3: specifications of DeleteContract, MigrateContractStorage and CleanContractStorage
    on the whole key space ([glk s x] = what CacheDB.get finds under the full key [x]). *)
From Coq Require Import List Bool Arith NArith Lia.
Import ListNotations.
From Ont Require Import Lib.Bytes Model.KV Proofs.KV Proofs.KVLive Gen.ContractConsts Model.ContractStore
  Proofs.C44Loop Proofs.C44Effect.
Local Open Scope N_scope.
Open Scope bool_scope.

(** * layers below the cache are never touched by CacheDB writes *)
Definition same_block (s s' : state) : Prop := st_overlay s' = st_overlay s /\ st_store s' = st_store s.

Lemma same_block_refl s : same_block s s. Proof. split; reflexivity. Qed.
Lemma same_block_trans a b c : same_block a b -> same_block b c -> same_block a c.
Proof. intros [A1 A2] [B1 B2]; split; congruence. Qed.
Lemma same_block_abs s s' : same_block s s' -> abs_block s' = abs_block s.
Proof. intros [A B]. unfold abs_block. rewrite A, B. reflexivity. Qed.
Lemma same_block_put pfx k v s : same_block s (cache_put pfx k v s). Proof. split; reflexivity. Qed.
Lemma same_block_delete pfx k s : same_block s (cache_delete pfx k s). Proof. split; reflexivity. Qed.

Lemma apply_wrs_block pfx : forall ws s, same_block s (apply_wrs pfx s ws).
Proof.
  unfold apply_wrs. induction ws as [|w ws IH]; intro s; simpl; [apply same_block_refl|].
  eapply same_block_trans; [|apply IH]. destruct w; simpl; [apply same_block_put|apply same_block_delete].
Qed.

Lemma fold_body_block pfx body : forall L s, same_block s (fold_body pfx body L s).
Proof.
  induction L as [|e L IH]; intro s; [apply same_block_refl|]. rewrite fold_body_cons.
  eapply same_block_trans; [apply apply_wrs_block|apply IH].
Qed.

Lemma apply_wrs_good pfx : byte_ok pfx = true -> forall ws s, good s ->
  (forall w, In w ws -> wf_bytes (wr_key w) = true) -> good (apply_wrs pfx s ws).
Proof.
  intro Hp. unfold apply_wrs. induction ws as [|w ws IH]; intros s G H; simpl; [exact G|].
  apply IH; [|intros w' Hw'; apply H; right; exact Hw'].
  pose proof (H w (or_introl eq_refl)) as Hw. destruct w; simpl in *; [apply good_put|apply good_delete]; auto.
Qed.

Lemma fold_body_good pfx body : byte_ok pfx = true -> forall L s, good s ->
  (forall e w, In e L -> In w (body (tl (fst e)) (snd e)) -> wf_bytes (wr_key w) = true) ->
  good (fold_body pfx body L s).
Proof.
  intro Hp. induction L as [|e L IH]; intros s G H; [exact G|]. rewrite fold_body_cons.
  apply IH; [apply apply_wrs_good; auto; intros w Hw; apply (H e w); [left; reflexivity|exact Hw]|].
  intros e' w He' Hw. apply (H e' w); [right; exact He'|exact Hw].
Qed.

(** * the marker *)
Lemma marker_nonempty h : is_empty (marker h) = false.
Proof. reflexivity. Qed.

Lemma marker_wf h : wf_bytes (marker h) = true.
Proof. apply le_encode_wf. Qed.

(** * DeleteContract *)
Lemma glk_set_destroyed track h a s x : sorted_state s ->
  glk (set_destroyed track h a s) x =
    if (track <=? h) && key_eqb x (DK a) then Some (marker h) else glk s x.
Proof.
  intro Hs. unfold set_destroyed. destruct (track <=? h); simpl; [|reflexivity].
  rewrite glk_put by exact Hs. unfold DK. destruct (key_eqb x (pkey ST_DESTROYED a)); [|reflexivity].
  unfold nz. rewrite marker_nonempty. reflexivity.
Qed.

Lemma glk_unset_destroyed track h a s x : sorted_state s ->
  glk (unset_destroyed track h a s) x =
    if (track <=? h) && key_eqb x (DK a) then None else glk s x.
Proof.
  intro Hs. unfold unset_destroyed. destruct (track <=? h); simpl; [|reflexivity].
  rewrite glk_delete by exact Hs. reflexivity.
Qed.

Lemma set_destroyed_good track h a s : good s -> wf_bytes a = true -> good (set_destroyed track h a s).
Proof. intros G W. unfold set_destroyed. destruct (track <=? h); [apply good_put; auto; reflexivity|exact G]. Qed.
Lemma unset_destroyed_good track h a s : good s -> wf_bytes a = true -> good (unset_destroyed track h a s).
Proof. intros G W. unfold unset_destroyed. destruct (track <=? h); [apply good_delete; auto; reflexivity|exact G]. Qed.
Lemma set_destroyed_block track h a s : same_block s (set_destroyed track h a s).
Proof. unfold set_destroyed. destruct (track <=? h); [apply same_block_put|apply same_block_refl]. Qed.
Lemma unset_destroyed_block track h a s : same_block s (unset_destroyed track h a s).
Proof. unfold unset_destroyed. destruct (track <=? h); [apply same_block_delete|apply same_block_refl]. Qed.

Lemma glk_delete_contract track h a s x : sorted_state s ->
  glk (delete_contract track h a s) x =
    if (track <=? h) && key_eqb x (DK a) then Some (marker h)
    else if key_eqb x (CK a) then None else glk s x.
Proof.
  intro Hs. unfold delete_contract. rewrite glk_set_destroyed by (apply cache_delete_sorted; exact Hs).
  rewrite glk_delete by exact Hs. reflexivity.
Qed.

Lemma delete_contract_good track h a s : good s -> wf_bytes a = true -> good (delete_contract track h a s).
Proof. intros G W. apply set_destroyed_good; [apply good_delete; auto; reflexivity|exact W]. Qed.
Lemma delete_contract_block track h a s : same_block s (delete_contract track h a s).
Proof. eapply same_block_trans; [apply same_block_delete|apply set_destroyed_block]. Qed.

(** keys of different name spaces *)
Lemma SK_not_CK x a b sfx : x = SK a sfx -> key_eqb x (CK b) = false.
Proof. intros ->. apply key_eqb_neq. unfold SK, CK, pkey. intro H. inversion H. Qed.
Lemma SK_not_DK x a b sfx : x = SK a sfx -> key_eqb x (DK b) = false.
Proof. intros ->. apply key_eqb_neq. unfold SK, DK, pkey. intro H. inversion H. Qed.
Lemma CK_not_DK a b : key_eqb (CK a) (DK b) = false.
Proof. apply key_eqb_neq. unfold CK, DK, pkey. intro H. inversion H. Qed.
Lemma DK_not_CK a b : key_eqb (DK a) (CK b) = false.
Proof. apply key_eqb_neq. unfold CK, DK, pkey. intro H. inversion H. Qed.
Lemma CK_not_SP a b : has_prefix (SP a) (CK b) = false.
Proof. reflexivity. Qed.
Lemma DK_not_SP a b : has_prefix (SP a) (DK b) = false.
Proof. reflexivity. Qed.
Lemma CK_eqb a b : key_eqb (CK a) (CK b) = true <-> a = b.
Proof. unfold CK. rewrite key_eqb_pkey. tauto. Qed.
Lemma DK_eqb a b : key_eqb (DK a) (DK b) = true <-> a = b.
Proof. unfold DK. rewrite key_eqb_pkey. tauto. Qed.

Lemma under_prefix_not_CK a x b : has_prefix (SP a) x = true -> key_eqb x (CK b) = false.
Proof. intro H. apply SP_prefix_inv in H. eapply SK_not_CK; exact H. Qed.
Lemma under_prefix_not_DK a x b : has_prefix (SP a) x = true -> key_eqb x (DK b) = false.
Proof. intro H. apply SP_prefix_inv in H. eapply SK_not_DK; exact H. Qed.

(** * the listing a loop walks *)
Definition listing (a : bytes) (s : state) : list kv := with_prefix (SP a) (abs s).

Lemma listing_under a s : under a (listing a s).
Proof. intros e He. unfold listing, with_prefix in He. apply filter_In in He. apply He. Qed.

Lemma listing_sorted a s : sorted_state s -> ssorted (listing a s).
Proof. intro H. apply with_prefix_sorted, abs_sorted, H. Qed.

Lemma listing_In a s x v : sorted_state s -> In (x, v) (listing a s) <-> glk s x = Some v /\ has_prefix (SP a) x = true.
Proof. apply in_with_prefix. Qed.

Lemma listing_inkeys a s x : sorted_state s -> has_prefix (SP a) x = true ->
  inkeys x (listing a s) = match glk s x with Some _ => true | None => false end.
Proof.
  intros Hs Hx. destruct (glk s x) as [v|] eqn:E.
  - apply inkeys_In. exists v. apply listing_In; auto.
  - destruct (inkeys x (listing a s)) eqn:I; [|reflexivity]. apply inkeys_In in I. destruct I as [v I].
    apply listing_In in I; [|exact Hs]. destruct I as [I _]. congruence.
Qed.

Lemma listing_inkeys_out a s x : has_prefix (SP a) x = false -> inkeys x (listing a s) = false.
Proof.
  intro Hx. destruct (inkeys x (listing a s)) eqn:I; [|reflexivity]. apply inkeys_In in I. destruct I as [v I].
  apply listing_under in I. cbn [fst] in I. congruence.
Qed.

Lemma keys_wf_abs s : good s -> keys_wf (abs s).
Proof.
  intro G. destruct (good_wf s G) as (Wc & Wo & Wst & _ & _).
  apply (abs_keys (fun k => wf_bytes k = true)); auto.
Qed.

Lemma listing_wf a s e : good s -> In e (listing a s) -> wf_bytes (fst e) = true.
Proof. intros G He. apply (keys_wf_abs s G). unfold listing, with_prefix in He. apply filter_In in He. apply He. Qed.

Lemma pkey_tl a (e : kv) : has_prefix (SP a) (fst e) = true -> pkey ST_STORAGE (tl (fst e)) = fst e.
Proof.
  unfold SP, pkey. destruct (fst e) as [|c k]; cbn [has_prefix tl]; [discriminate|].
  intro H. apply andb_prop in H. destruct H as [E _]. apply N.eqb_eq in E. subst c. reflexivity.
Qed.

(** * CleanContractStorageData *)
Lemma clean_behind a s e : good s -> In e (listing a s) ->
  Forall (wr_behind ST_STORAGE a (fst e)) (clean_body (tl (fst e)) (snd e)).
Proof.
  intros G He. pose proof (listing_under a s e He) as U. pose proof (listing_wf a s e G He) as W.
  unfold clean_body. constructor; [|constructor]. unfold wr_behind. cbn [wr_key].
  rewrite (pkey_tl a e U). split; [exact W|left; apply kle_refl].
Qed.

Theorem clean_data_spec a s : good s ->
  let r := clean_contract_storage_data a s in
  snd r = true /\ good (fst r) /\ same_block s (fst r) /\
  forall x, glk (fst r) x = if has_prefix (SP a) x then None else glk s x.
Proof.
  intros G r. pose proof (good_sorted s G) as Hs. destruct (good_wf s G) as (Wc & Wo & Wst & _ & _).
  unfold r, clean_contract_storage_data.
  rewrite (iterate_writing_behind clean_body a s Hs Wc Wo Wst (fun e He => clean_behind a s e G He)).
  cbn [fst snd]. fold (SP a). fold (listing a s). split; [reflexivity|]. split; [|split].
  - apply fold_body_good; [reflexivity|exact G|]. intros e w He Hw.
    destruct Hw as [<-|[]]. cbn [wr_key].
    pose proof (listing_wf a s e G He) as W. rewrite <- (pkey_tl a e (listing_under a s e He)) in W.
    unfold pkey in W. rewrite wf_bytes_cons in W. apply andb_prop in W. apply W.
  - apply fold_body_block.
  - intro x. rewrite (proj1 (glk_fold_clean (listing a s) s x Hs (under_headed a _ (listing_under a s)))).
    rewrite del_effect_spec. destruct (has_prefix (SP a) x) eqn:Hx.
    + rewrite (listing_inkeys a s x Hs Hx). destruct (glk s x); reflexivity.
    + rewrite (listing_inkeys_out a s x Hx). reflexivity.
Qed.

(** * MigrateContractStorage's loop *)
Lemma migrate_key_wf new k : wf_bytes new = true -> wf_bytes k = true -> wf_bytes (migrate_key new k) = true.
Proof. intros A B. unfold migrate_key. rewrite wf_bytes_app, A. apply wf_skipn, B. Qed.

Lemma tl_wf (e : kv) a : has_prefix (SP a) (fst e) = true -> wf_bytes (fst e) = true -> wf_bytes (tl (fst e)) = true.
Proof.
  intros U W. rewrite <- (pkey_tl a e U) in W. unfold pkey in W. rewrite wf_bytes_cons in W.
  apply andb_prop in W. apply W.
Qed.

Lemma migrate_behind old new s e : good s -> is_addr old = true -> is_addr new = true -> In e (listing old s) ->
  Forall (wr_behind ST_STORAGE old (fst e)) (migrate_body new (tl (fst e)) (snd e)).
Proof.
  intros G Ao An He. apply is_addr_spec in Ao. apply is_addr_spec in An. destruct Ao as [Wo Lo], An as [Wn Ln].
  pose proof (listing_under old s e He) as U. pose proof (listing_wf old s e G He) as W.
  unfold migrate_body. constructor; [|constructor; [|constructor]]; unfold wr_behind; cbn [wr_key].
  - pose proof (SP_prefix_inv old _ U) as E. set (sfx := skipn (length old) (tl (fst e))) in *.
    assert (NK : pkey ST_STORAGE (migrate_key new (tl (fst e))) = SK new sfx).
    { change (pkey ST_STORAGE (migrate_key new (tl (fst e)))) with (newk new e).
      destruct e as [k v]. cbn [fst] in *. rewrite E at 1. apply newk_of_SK. exact Lo. }
    split.
    + unfold pkey. rewrite wf_bytes_cons. apply andb_true_intro. split; [reflexivity|].
      apply migrate_key_wf; [exact Wn|eapply tl_wf; eauto].
    + rewrite NK. destruct (bytes_dec old new) as [->|Hne].
      * left. rewrite E. apply kle_refl.
      * right. apply SP_disjoint; congruence.
  - rewrite (pkey_tl old e U). split; [exact W|left; apply kle_refl].
Qed.

Lemma mig_effect_same old : forall L x b, under old L -> length old = ADDR_LEN ->
  mig_effect old L x b = del_effect L x b.
Proof.
  induction L as [|e L IH]; intros x b HU Lo; [reflexivity|]. cbn [mig_effect del_effect].
  rewrite IH by (auto; intros e' H'; apply HU; right; exact H'). f_equal.
  destruct (key_eqb x (fst e)) eqn:E; [reflexivity|].
  pose proof (HU e (or_introl eq_refl)) as U. apply SP_prefix_inv in U.
  assert (NK : newk old e = fst e).
  { destruct e as [k v]. cbn [fst] in *. rewrite U at 1. rewrite newk_of_SK by exact Lo. symmetry; exact U. }
  rewrite NK, E. reflexivity.
Qed.

(** The loop of MigrateContractStorage from any well-formed store [s] (the DeleteContract that
    precedes it is accounted for separately). *)
Theorem migrate_loop_spec old new s : good s -> is_addr old = true -> is_addr new = true ->
  let r := iterate_writing (migrate_body new) old s in
  snd r = true /\ good (fst r) /\ same_block s (fst r) /\
  (forall x, has_prefix (SP old) x = true -> glk (fst r) x = None) /\
  (old <> new -> forall sfx, glk (fst r) (SK new sfx) =
                   match glk s (SK old sfx) with Some v => Some v | None => glk s (SK new sfx) end) /\
  (forall x, has_prefix (SP old) x = false -> has_prefix (SP new) x = false -> glk (fst r) x = glk s x).
Proof.
  intros G Ao An r. pose proof (good_sorted s G) as Hs. destruct (good_wf s G) as (Wc & Wo & Wst & _ & _).
  pose proof Ao as Ao'. pose proof An as An'. apply is_addr_spec in Ao'. apply is_addr_spec in An'.
  destruct Ao' as [Wold Lo], An' as [Wnew Ln].
  unfold r. rewrite (iterate_writing_behind (migrate_body new) old s Hs Wc Wo Wst
                       (fun e He => migrate_behind old new s e G Ao An He)).
  cbn [fst snd]. fold (SP old). fold (listing old s).
  pose proof (listing_under old s) as HU.
  assert (GL : forall x, glk (fold_body ST_STORAGE (migrate_body new) (listing old s) s) x =
                         mig_effect new (listing old s) x (glk s x)).
  { intro x. apply (glk_fold_migrate new (listing old s) s x Hs (under_headed old _ HU)). }
  split; [reflexivity|]. split; [|split; [apply fold_body_block|]].
  { apply fold_body_good; [reflexivity|exact G|]. intros e w He Hw.
    pose proof (tl_wf e old (HU e He) (listing_wf old s e G He)) as Wt.
    destruct Hw as [<-|[<-|[]]]; cbn [wr_key]; [apply migrate_key_wf; assumption|exact Wt]. }
  split; [|split].
  - intros x Hx. rewrite GL. destruct (bytes_dec old new) as [<-|Hne].
    + rewrite mig_effect_same by assumption. rewrite del_effect_spec, (listing_inkeys old s x Hs Hx).
      destruct (glk s x); reflexivity.
    + assert (IN : innew new x (listing old s) = false).
      { apply (innew_false_diff old new); auto. pose proof (SP_prefix_inv old x Hx) as E. rewrite E.
        apply SP_disjoint; congruence. }
      destruct (glk s x) as [v|] eqn:E.
      * apply mig_effect_deleted; [rewrite (listing_inkeys old s x Hs Hx), E; reflexivity|exact IN].
      * rewrite mig_effect_frame; [reflexivity| |exact IN]. rewrite (listing_inkeys old s x Hs Hx), E. reflexivity.
  - intros Hne sfx. rewrite GL.
    destruct (glk s (SK old sfx)) as [v|] eqn:E.
    + rewrite (mig_effect_moved old new (listing old s) sfx v); auto.
      * unfold nz. destruct v; [exfalso; eapply glk_nonempty; eauto|reflexivity].
      * apply listing_sorted; exact Hs.
      * apply listing_In; [exact Hs|]. split; [exact E|apply SP_prefix_SK].
    + apply mig_effect_frame.
      * apply listing_inkeys_out. apply SP_disjoint; congruence.
      * destruct (innew new (SK new sfx) (listing old s)) eqn:I; [|reflexivity]. exfalso.
        apply existsb_exists in I. destruct I as [[k w] [HI HE]]. apply key_eqb_eq in HE.
        pose proof (HU _ HI) as P. cbn [fst] in P. apply SP_prefix_inv in P.
        rewrite P in HE. rewrite (newk_of_SK old new _ w Lo) in HE.
        apply SK_inj in HE; [|reflexivity]. destruct HE as [_ HE].
        rewrite P, <- HE in HI. apply listing_In in HI; [|exact Hs]. destruct HI as [HI _]. congruence.
  - intros x H1 H2. rewrite GL. apply mig_effect_frame.
    + apply listing_inkeys_out; exact H1.
    + apply (innew_false_diff old new); auto.
Qed.
