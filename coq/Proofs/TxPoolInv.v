(** C35 — invariants of the TXPool model preserved by every pool operation. *)
From Coq Require Import List Bool NArith Lia Permutation.
Import ListNotations.
From Ont Require Import Model.TxPool Proofs.TxPoolAL.
Local Open Scope N_scope.

(** every validTxMap entry satisfies [Q], every transaction in a per-sender list satisfies [R] *)
Definition vall (Q : N -> vtx -> Prop) (p : pool) : Prop :=
  forall h e, In (h, e) (p_valid p) -> Q h e.
Definition eall (R : tx -> Prop) (p : pool) : Prop :=
  forall P m n t, In (P, m) (p_eips p) -> In (n, t) m -> R t.
Definition pinv (Q : N -> vtx -> Prop) (R : tx -> Prop) (p : pool) : Prop :=
  sk (p_valid p) /\ vall Q p /\ eall R p.

(** [p'] only lost entries relative to [p] *)
Definition vsub (v' v : list (N * vtx)) : Prop :=
  (forall x, In x v' -> In x v) /\ (sk v -> sk v').
Definition esub (e' e : list (N * smap)) : Prop :=
  forall P m' n t, In (P, m') e' -> In (n, t) m' -> exists m, In (P, m) e /\ In (n, t) m.
Definition shrinks (p' p : pool) : Prop := vsub (p_valid p') (p_valid p) /\ esub (p_eips p') (p_eips p).

Lemma vsub_refl v : vsub v v. Proof. split; auto. Qed.
Lemma vsub_trans a b c : vsub a b -> vsub b c -> vsub a c.
Proof. intros [H1 H2] [H3 H4]. split; auto. Qed.
Lemma esub_refl e : esub e e. Proof. intros P m n t H1 H2. exists m; auto. Qed.
Lemma esub_trans a b c : esub a b -> esub b c -> esub a c.
Proof. intros H1 H2 P m n t Hi Hj. destruct (H1 _ _ _ _ Hi Hj) as [m1 [Ha Hb]]. eapply H2; eauto. Qed.
Lemma shrinks_refl p : shrinks p p. Proof. split; [apply vsub_refl|apply esub_refl]. Qed.
Lemma shrinks_trans a b c : shrinks a b -> shrinks b c -> shrinks a c.
Proof. intros [H1 H2] [H3 H4]. split; [eapply vsub_trans|eapply esub_trans]; eauto. Qed.

Lemma shrinks_pinv Q R p' p : shrinks p' p -> pinv Q R p -> pinv Q R p'.
Proof.
  intros [[Hv Hs] He] [Hsk [HQ HR]]. split; [auto|]. split.
  - intros h e H. apply HQ. auto.
  - intros P m n t H1 H2. destruct (He _ _ _ _ H1 H2) as [m0 [Ha Hb]]. eapply HR; eauto.
Qed.

Lemma vsub_adel k v : vsub (adel k v) v.
Proof. split; [intros x H; apply In_adel in H; tauto|apply sk_adel]. Qed.

Lemma vsub_del_hashes txs : forall v, vsub (del_hashes txs v) v.
Proof.
  unfold del_hashes. induction txs as [|t r IH]; intro v; simpl; [apply vsub_refl|].
  eapply vsub_trans; [apply IH|apply vsub_adel].
Qed.

Lemma esub_adel k e : esub (adel k e) e.
Proof. intros P m n t H1 H2. apply In_adel in H1. exists m; tauto. Qed.

Lemma esub_aput_sub P m m' e :
  aget P e = Some m -> (forall x, In x m' -> In x m) -> esub (aput P m' e) e.
Proof.
  intros Hg Hs Q m2 n t H1 H2. apply In_aput in H1. destruct H1 as [H1|H1].
  - inversion H1; subst. exists m. split; [apply aget_In; auto|auto].
  - exists m2; auto.
Qed.

(** * AddTxList *)
Lemma add_eip_inv R p t p1 rep code :
  add_eip_tx_pool p t = (p1, rep, code) -> eall R p -> R t ->
  eall R p1 /\ p_valid p1 = p_valid p.
Proof.
  unfold add_eip_tx_pool. intros H HR Ht.
  set (items := match aget (tx_payer t) (p_eips p) with Some m => m | None => [] end) in *.
  assert (Hitems : forall n t', In (n, t') items -> R t').
  { intros n t' Hin. unfold items in Hin. destruct (aget (tx_payer t) (p_eips p)) as [m|] eqn:E; [|destruct Hin].
    eapply HR; [apply aget_In; eauto|eauto]. }
  assert (Hput : eall R (mkPool (p_valid p) (aput (tx_payer t) (aput (tx_nonce t) t items) (p_eips p)) (p_latest p))).
  { intros P m n t' H1 H2. simpl in H1. apply In_aput in H1. destruct H1 as [H1|H1].
    - inversion H1; subst. apply In_aput in H2. destruct H2 as [H2|H2]; [inversion H2; subst; auto|eauto].
    - eapply HR; eauto. }
  destruct (aget (tx_nonce t) items) as [old|].
  - destruct (repl_rhs (tx_price old) <? tx_price t); inversion H; subst; auto.
  - inversion H; subst; auto.
Qed.

Lemma add_tx_list_inv Q R p e :
  pinv Q R p -> Q (tx_hash (v_tx e)) e -> (tx_eip (v_tx e) = true -> R (v_tx e)) -> pinv Q R (fst (add_tx_list p e)).
Proof.
  intros Hinv HQ HR0. unfold add_tx_list.
  assert (Hfin : forall p0, pinv Q R p0 ->
    pinv Q R (fst (if ahas (tx_hash (v_tx e)) (p_valid p0) then (p0, EDuplicated)
                   else (mkPool (aput (tx_hash (v_tx e)) e (p_valid p0)) (p_eips p0) (p_latest p0), ENoError)))).
  { intros p0 [Hs [Hv He]]. destruct (ahas _ _); simpl; [repeat split; auto|].
    split; [apply sk_aput; auto|]. split; [|exact He].
    intros h e' H. simpl in H. apply In_aput in H. destruct H as [H|H]; [inversion H; subst; auto|auto]. }
  destruct (tx_eip (v_tx e)) eqn:Eeip; [|apply Hfin; auto].
  assert (HR : R (v_tx e)) by auto.
  destruct (gap_rhs (v_nonce e) <=? tx_nonce (v_tx e)); [exact Hinv|].
  destruct (add_eip_tx_pool p (v_tx e)) as [[p1 rep] code] eqn:E.
  destruct Hinv as [Hs [Hv He]].
  destruct (add_eip_inv R _ _ _ _ _ E He HR) as [He1 Ev1].
  assert (H1 : pinv Q R p1).
  { split; [rewrite Ev1; auto|]. split; [|auto]. intros h e' H. rewrite Ev1 in H. auto. }
  set (p2 := match rep with Some o => mkPool (adel (tx_hash o) (p_valid p1)) (p_eips p1) (p_latest p1) | None => p1 end).
  assert (H2 : pinv Q R p2).
  { unfold p2. destruct rep; auto. eapply shrinks_pinv; [|exact H1].
    split; simpl; [apply vsub_adel|apply esub_refl]. }
  destruct code; simpl; auto.
  apply Hfin. destruct (ahas (tx_payer (v_tx e)) (p_latest p2)); auto.
Qed.

(** * the deleting operations shrink *)
Lemma sm_forward_sub thr m : forall x, In x (snd (sm_forward thr m)) -> In x m.
Proof. simpl. intros x H. apply filter_In in H. tauto. Qed.

Lemma clean_completed_eip_shrinks txs height : forall p,
  shrinks (snd (clean_completed_eip txs height p)) p.
Proof.
  induction txs as [|t r IH]; intro p; [apply shrinks_refl|]. simpl.
  set (s1 := if tx_eip t then _ else _).
  assert (H1 : shrinks (snd s1) p).
  { unfold s1. destruct (tx_eip t); [|apply shrinks_refl].
    destruct (aget (tx_payer t) (p_eips p)) as [m|] eqn:E; [|apply shrinks_refl].
    unfold sm_forward. cbv beta iota.
    destruct (filter (fun kv : N * tx => negb (fst kv <? forward_threshold (tx_nonce t))) m) as [|x m'] eqn:Ef.
    - split; simpl; [apply vsub_refl|apply esub_adel].
    - split; simpl; [apply vsub_refl|]. eapply esub_aput_sub; eauto.
      intros y Hy. rewrite <- Ef in Hy. apply filter_In in Hy; tauto. }
  destruct s1 as [c1 p1]. simpl in H1.
  specialize (IH p1). destruct (clean_completed_eip r height p1) as [c2 p2]. simpl in *.
  eapply shrinks_trans; eauto.
Qed.

Lemma clean_completed_shrinks txs height p : shrinks (clean_completed txs height p) p.
Proof.
  unfold clean_completed. pose proof (clean_completed_eip_shrinks txs height p) as H.
  destruct (clean_completed_eip txs height p) as [cleaned p1]. simpl in *.
  destruct H as [Hv He]. split; simpl; [|exact He].
  eapply vsub_trans; [apply vsub_del_hashes|exact Hv].
Qed.

Lemma fold_shrinks {A} (f : pool -> A -> pool) (l : list A) :
  (forall p x, shrinks (f p x) p) -> forall p, shrinks (fold_left f l p) p.
Proof.
  intros Hf. induction l as [|x r IH]; intro p; simpl; [apply shrinks_refl|].
  eapply shrinks_trans; [apply IH|apply Hf].
Qed.

Lemma clean_staled_shrinks height p : shrinks (clean_staled height p) p.
Proof.
  unfold clean_staled. destruct (MAX_LIMITATION <? _); [|apply shrinks_refl].
  apply fold_shrinks. intros p0 [addr [h n]].
  destruct (_ <=? height); [|apply shrinks_refl].
  destruct (aget addr (p_eips p0)) as [m|]; simpl.
  - split; simpl; [apply vsub_del_hashes|apply esub_adel].
  - split; simpl; [apply vsub_refl|apply esub_refl].
Qed.

Lemma eips_remove_esub payer nonce e : esub (fst (eips_remove payer nonce e)) e.
Proof.
  unfold eips_remove. destruct (aget payer e) as [m|] eqn:E; simpl; [|apply esub_refl].
  eapply esub_aput_sub; eauto. intros x H. apply In_adel in H. tauto.
Qed.

Lemma fold_shrinks_ok {A} (f : pool * bool -> A -> pool * bool) (l : list A) :
  (forall p b x, shrinks (fst (f (p, b) x)) p) -> forall p b, shrinks (fst (fold_left f l (p, b))) p.
Proof.
  intros Hf. induction l as [|x r IH]; intros p b; simpl; [apply shrinks_refl|].
  destruct (f (p, b) x) as [p1 b1] eqn:E. eapply shrinks_trans; [apply IH|].
  specialize (Hf p b x). rewrite E in Hf. exact Hf.
Qed.

Definition drop_tx (acc : pool * bool) (t : tx) : pool * bool :=
  let '(p, ok) := acc in
  let v' := adel (tx_hash t) (p_valid p) in
  if tx_eip t then
    let '(e', ok') := eips_remove (tx_payer t) (tx_nonce t) (p_eips p) in
    (mkPool v' e' (p_latest p), ok && ok')
  else (mkPool v' (p_eips p) (p_latest p), ok).

Lemma drop_tx_shrinks p b t : shrinks (fst (drop_tx (p, b) t)) p.
Proof.
  unfold drop_tx. destruct (tx_eip t).
  - pose proof (eips_remove_esub (tx_payer t) (tx_nonce t) (p_eips p)) as H.
    destruct (eips_remove _ _ _) as [e' ok']. simpl in *. split; simpl; [apply vsub_adel|exact H].
  - split; simpl; [apply vsub_adel|apply esub_refl].
Qed.

Lemma remove_below_price_shrinks g p : shrinks (fst (remove_below_price g p)) p.
Proof.
  unfold remove_below_price. apply fold_shrinks_ok. intros p0 b kv.
  destruct (tx_price _ <? g); [|apply shrinks_refl].
  apply (drop_tx_shrinks p0 b (v_tx (snd kv))).
Qed.

Lemma remain_shrinks p : shrinks (snd (remain p)) p.
Proof.
  split; simpl.
  - split; [intros x []|intros; exact I].
  - intros P m n t [].
Qed.

(** * GetTxPool *)
Lemma gtp_loop_spec l height count : forall va oa v o,
  gtp_loop l height count va oa = (v, o) ->
  exists v', v = rev va ++ v' /\ sub v' l /\ (forall e, In e v' -> v_height e <? height = false) /\
  exists o', o = rev oa ++ o' /\ (forall t, In t o' -> exists e, In e l /\ v_tx e = t).
Proof.
  induction l as [|e r IH]; intros va oa v o H; simpl in H.
  - inversion H; subst. exists []. rewrite app_nil_r. repeat split; try constructor; try (intros ? []).
    exists []. rewrite app_nil_r. split; auto. intros ? [].
  - destruct (v_height e <? height) eqn:Eh.
    + destruct (IH _ _ _ _ H) as [v' [E1 [Hs [Hh [o' [E2 Ho]]]]]].
      exists v'. split; auto. split; [apply sub_skip; auto|]. split; auto.
      exists (v_tx e :: o'). split.
      * rewrite E2. simpl. rewrite <- app_assoc. reflexivity.
      * intros t [<-|Ht]; [exists e; simpl; auto|]. destruct (Ho t Ht) as [e' [Ha Hb]]. exists e'; simpl; auto.
    + destruct (Nat.ltb (length va) count).
      * destruct (IH _ _ _ _ H) as [v' [E1 [Hs [Hh [o' [E2 Ho]]]]]].
        exists (e :: v'). split; [rewrite E1; simpl; rewrite <- app_assoc; reflexivity|].
        split; [apply sub_keep; auto|]. split; [intros e' [<-|He']; auto|].
        exists o'. split; auto. intros t Ht. destruct (Ho t Ht) as [e' [Ha Hb]]. exists e'; simpl; auto.
      * destruct (IH _ _ _ _ H) as [v' [E1 [Hs [Hh [o' [E2 Ho]]]]]].
        exists v'. split; auto. split; [apply sub_skip; auto|]. split; auto.
        exists o'. split; auto. intros t Ht. destruct (Ho t Ht) as [e' [Ha Hb]]. exists e'; simpl; auto.
Qed.

Lemma get_tx_pool_shrinks o bc h mx p : shrinks (g_pool (get_tx_pool o bc h mx p)) p.
Proof.
  unfold get_tx_pool. cbv zeta.
  destruct (gtp_loop _ h _ [] []) as [valid old].
  pose proof (fold_shrinks_ok drop_tx old drop_tx_shrinks p true) as H.
  unfold drop_tx in H.
  match goal with |- context [fold_left ?f old (p, true)] => destruct (fold_left f old (p, true)) as [p' ok] end.
  simpl in *. exact H.
Qed.

Lemma In_nth_set {A} (ls : list (list A)) : forall i x rest, nth i ls [] = x :: rest ->
  In (x :: rest) ls.
Proof.
  induction ls as [|l r IH]; intros [|i] x rest H; simpl in *; try discriminate; auto.
  right. eapply IH; eauto.
Qed.

(** every element handed out by selectSort comes from a lookup in validTxMap with the hash of a
    transaction of one of the per-sender lists *)
Definition from_lists (ls : list (list tx)) (valid : list (N * vtx)) (e : vtx) : Prop :=
  exists l t, In l ls /\ In t l /\ aget (tx_hash t) valid = Some e.

Lemma set_nth_In {A} (ls : list (list A)) : forall i x rest l, nth i ls [] = x :: rest ->
  In l (set_nth i rest ls) -> l = rest \/ In l ls.
Proof.
  induction ls as [|l0 r IH]; intros [|i] x rest l H Hin; simpl in *; try discriminate; try tauto.
  - destruct Hin; auto.
  - destruct Hin; auto. destruct (IH _ _ _ _ H H0); auto.
Qed.

Lemma select_sort_from fuel : forall ls valid e, In e (select_sort fuel ls valid) -> from_lists ls valid e.
Proof.
  induction fuel as [|f IH]; intros ls valid e H; simpl in H; [destruct H|].
  destruct (nth (pick ls 0 0 0) ls []) as [|t rest] eqn:En; [destruct H|].
  apply in_app_or in H. destruct H as [H|H].
  - destruct (aget (tx_hash t) valid) as [e'|] eqn:Eg; [|destruct H].
    destruct H as [<-|[]]. exists (t :: rest), t. split; [eapply In_nth_set; eauto|]. simpl; auto.
  - destruct (IH _ _ _ H) as [l [t' [Hl [Ht Hg]]]].
    destruct (set_nth_In _ _ _ _ _ En Hl) as [->|Hl'].
    + exists (t :: rest), t'. split; [eapply In_nth_set; eauto|]. simpl; auto.
    + exists l, t'. auto.
Qed.

Lemma heading_from_In m : forall fuel n t, In t (heading_from m n fuel) -> exists k, In (k, t) m.
Proof.
  induction fuel as [|f IH]; intros n t H; simpl in H; [destruct H|].
  destruct (aget n m) as [t'|] eqn:E; [|destruct H].
  destruct H as [<-|H]; [exists n; apply aget_In; auto|eauto].
Qed.

Lemma heading_In m t : In t (heading m) -> exists k, In (k, t) m.
Proof. unfold heading. destruct m as [|[n x] r]; [intros []|apply heading_from_In]. Qed.

Lemma pinv_weaken (Q Q' : N -> vtx -> Prop) R p :
  (forall h e, Q h e -> Q' h e) -> pinv Q R p -> pinv Q' R p.
Proof. intros H [Hs [Hv He]]. split; auto. split; auto. intros h e Hin. apply H. auto. Qed.
