(** Proofs/C34.v — lemmas for property C34 over Model/Vbft.v: the node invariant [LInv] (every
    signature a node knows was made by the key it names or was sent by somebody; every seal is
    backed by a commitDone verdict over a prefix of what the pool was given), its preservation by
    every handler, the network invariant, and the assembly of the partial safety theorem from
    C31's quorum theorem and the quorum intersection of Lib/Quorum.v. *)
From Coq Require Import List Bool NArith ZArith Lia Arith.
Import ListNotations.
From Ont Require Import Lib.Quorum Gen.Thresholds Gen.VbftIntake Gen.VbftMarks Model.VbftPool Model.VbftPoolSpec
  Proofs.C31 Model.Vbft Model.VbftSpec.
Ltac Zify.zify_post_hook ::= Z.to_euclidean_division_equations.
Local Open Scope N_scope.

(** * Boolean equalities *)
Lemma blk_eqb_eq a b : blk_eqb a b = true -> a = b.
Proof.
  unfold blk_eqb. intro H. apply andb_true_iff in H. destruct H as [H He].
  apply andb_true_iff in H. destruct H as [Hp Hk].
  apply N.eqb_eq in Hp. apply N.eqb_eq in Hk. apply eqb_prop in He.
  destruct a, b; cbn in *; subst; reflexivity.
Qed.

Lemma blk_eqb_refl a : blk_eqb a a = true.
Proof. unfold blk_eqb. rewrite !N.eqb_refl, eqb_reflx. reflexivity. Qed.

Lemma sg_eqb_eq a b : sg_eqb a b = true -> a = b.
Proof.
  unfold sg_eqb. intro H. apply andb_true_iff in H. destruct H as [Hs Hb].
  apply N.eqb_eq in Hs. apply blk_eqb_eq in Hb. destruct a, b; cbn in *; subst; reflexivity.
Qed.

Lemma sg_eqb_refl a : sg_eqb a a = true.
Proof. unfold sg_eqb. rewrite N.eqb_refl, blk_eqb_refl. reflexivity. Qed.

Lemma ends_eqb_eq a : forall b, ends_eqb a b = true -> a = b.
Proof.
  induction a as [|x r IH]; intros [|y r'] H; cbn [ends_eqb] in H; try discriminate; [reflexivity|].
  apply andb_true_iff in H. destruct H as [H Hr]. apply andb_true_iff in H. destruct H as [Hi Hs].
  apply N.eqb_eq in Hi. apply sg_eqb_eq in Hs. rewrite (IH r' Hr).
  destruct x, y; cbn in *; subst; reflexivity.
Qed.

Lemma msg_eqb_eq a b : msg_eqb a b = true -> a = b.
Proof.
  destruct a, b; cbn [msg_eqb]; intro H; try discriminate;
    repeat (apply andb_true_iff in H; let H' := fresh "H" in destruct H as [H H']);
    repeat match goal with
           | X : (_ =? _) = true |- _ => apply N.eqb_eq in X
           | X : eqb _ _ = true |- _ => apply eqb_prop in X
           | X : blk_eqb _ _ = true |- _ => apply blk_eqb_eq in X
           | X : sg_eqb _ _ = true |- _ => apply sg_eqb_eq in X
           | X : ends_eqb _ _ = true |- _ => apply ends_eqb_eq in X
           end; subst; reflexivity.
Qed.

Lemma pkt_eqb_eq a b : pkt_eqb a b = true -> a = b.
Proof.
  unfold pkt_eqb. intro H. apply andb_true_iff in H. destruct H as [Hf Hm].
  apply N.eqb_eq in Hf. apply msg_eqb_eq in Hm. destruct a, b; cbn in *; subst; reflexivity.
Qed.

Lemma existsb_In {A} (eqb : A -> A -> bool) (Heq : forall a b, eqb a b = true -> a = b) x l :
  existsb (eqb x) l = true -> In x l.
Proof.
  intro H. apply existsb_exists in H. destruct H as (y & Hy & E). apply Heq in E. subst; exact Hy.
Qed.

Lemma nodupb_NoDup l : nodupb l = true -> NoDup l.
Proof.
  induction l as [|x r IH]; cbn [nodupb]; intro H; [constructor|].
  apply andb_true_iff in H. destruct H as [Hx Hr]. constructor; [|apply IH; exact Hr].
  intro Hin. apply memN_In in Hin. rewrite Hin in Hx. discriminate.
Qed.

(** * Lists *)
Definition prefix {A} (a b : list A) : Prop := exists r, b = a ++ r.

Lemma prefix_refl {A} (a : list A) : prefix a a.
Proof. exists []; symmetry; apply app_nil_r. Qed.

Lemma prefix_app {A} (a b c : list A) : prefix a b -> prefix a (b ++ c).
Proof. intros [r ->]. exists (r ++ c). symmetry; apply app_assoc. Qed.

Lemma prefix_incl {A} (a b : list A) : prefix a b -> incl a b.
Proof. intros [r ->] x Hx. apply in_or_app; left; exact Hx. Qed.

Lemma forallb_prefix {A} (f : A -> bool) a b : prefix a b -> forallb f b = true -> forallb f a = true.
Proof. intros [r ->] H. rewrite forallb_app in H. apply andb_true_iff in H. tauto. Qed.

Lemma in_add_msg x m l : In x (add_msg m l) -> x = m \/ In x l.
Proof.
  unfold add_msg. destruct (has_msg m l); intro H; [right; exact H|].
  apply in_app_or in H. destruct H as [H|[H|[]]]; [right; exact H|left; symmetry; exact H].
Qed.

Lemma incl_add_msg m l : incl l (add_msg m l).
Proof. unfold add_msg. destruct (has_msg m l); intros x Hx; [exact Hx|apply in_or_app; left; exact Hx]. Qed.

Lemma in_aset {V} (k : N) (v : V) m x : In x (aset k v m) -> x = (k, v) \/ In x m.
Proof.
  induction m as [|[k' v'] r IH]; cbn [aset]; intro H.
  - destruct H as [H|[]]; left; symmetry; exact H.
  - destruct (k =? k') eqn:E.
    + apply N.eqb_eq in E; subst k'. destruct H as [H|H]; [left; symmetry; exact H|right; right; exact H].
    + destruct H as [H|H]; [right; left; exact H|]. destruct (IH H) as [H'|H']; [left; exact H'|right; right; exact H'].
Qed.

(** * run_ops *)
Lemma run_ops_app a : forall b st, run_ops (a ++ b) st = run_ops b (run_ops a st).
Proof. induction a as [|o r IH]; intros b st; cbn [app run_ops]; [reflexivity|apply IH]. Qed.

Lemma run_ops_snoc ops o st : run_ops (ops ++ [o]) st = fst (receive o (run_ops ops st)).
Proof. rewrite run_ops_app. reflexivity. Qed.

Lemma receive_proposals o st q :
  In q (c_proposals (fst (receive o st))) -> In q (c_proposals st) \/ exists ok, o = OpProposal ok q.
Proof.
  destruct o as [ok p|sndr ok m|sndr ok m]; cbn [receive]; destruct (passes ok); cbn [fst]; auto.
  - unfold new_block_proposal. destruct (find _ _).
    + destruct (_ =? _); auto.
    + cbn [fst c_proposals]. intro H. apply in_app_or in H. destruct H as [H|[H|[]]]; [left; exact H|].
      subst. right. exists ok. reflexivity.
  - unfold new_block_commitment. destruct (find _ _); [destruct (_ =? _); auto|]. cbn [fst c_proposals]. auto.
Qed.

Lemma run_ops_proposals ops : forall st q,
  In q (c_proposals (run_ops ops st)) -> In q (c_proposals st) \/ exists ok, In (OpProposal ok q) ops.
Proof.
  induction ops as [|o r IH]; intros st q H; cbn [run_ops] in H; [left; exact H|].
  destruct (IH _ _ H) as [H'|[ok H']].
  - destruct (receive_proposals _ _ _ H') as [H''|[ok ->]]; [left; exact H''|right; exists ok; left; reflexivity].
  - right; exists ok; right; exact H'.
Qed.

(** * Every valid entry of the pool is backed by a signature that exists

    [Sg i p]: peer [i] has signed some block of proposer [p]. If every operation handed to the
    pool is backed (a validity bit is only [true] when the signature exists), so is every valid
    entry the pool holds. *)
Section Backing.
  Variable Sg : N -> N -> Prop.

  Definition cm_sg (m : commit_msg) : Prop :=
    (cm_valid m = true -> Sg (cm_committer m) (cm_proposer m)) /\
    forall i, In (i, true) (cm_endorsers m) -> Sg i (cm_proposer m).

  Definition op_sg (o : op) : Prop :=
    match o with
    | OpProposal _ p => pp_valid p = true -> Sg (pp_proposer p) (pp_proposer p)
    | OpEndorse _ _ m => em_valid m = true -> Sg (em_endorser m) (em_proposer m)
    | OpCommit _ _ m => cm_sg m
    end.

  Definition es_sg (e : N) (l : list esig) : Prop :=
    forall s, In s l -> es_valid s = true -> Sg e (es_proposer s).

  Definition st_sg (st : cand) : Prop :=
    es_all es_sg (c_esigs st) /\ forall m, In m (c_commits st) -> cm_sg m.

  Lemma add_endorsement_sg e s cm es :
    (es_valid s = true -> Sg e (es_proposer s)) -> es_all es_sg es -> es_all es_sg (add_endorsement e s cm es).
  Proof.
    intros Hs H. apply add_endorsement_all; [exact H| |].
    - intros s' [<-|[]]; exact Hs.
    - intros l _ Hl _ _ s' Hs'. apply in_app_or in Hs'. destruct Hs' as [Hs'|[<-|[]]]; [apply Hl; exact Hs'|exact Hs].
  Qed.

  Lemma receive_sg o st : op_sg o -> st_sg st -> st_sg (fst (receive o st)).
  Proof.
    intros Ho [Hes Hcm].
    destruct o as [ok p|sndr ok m|sndr ok m]; cbn [receive op_sg] in *;
      destruct (passes ok); cbn [fst]; try (split; assumption).
    - unfold new_block_proposal. destruct (find _ _).
      + destruct (_ =? _); split; assumption.
      + cbn [fst]. split; cbn [c_esigs c_commits]; [|exact Hcm].
        apply add_endorsement_sg; cbn [es_valid es_proposer]; assumption.
    - cbn [new_block_endorsement fst]. split; cbn [c_esigs c_commits]; [|exact Hcm].
      apply add_endorsement_sg; cbn [es_valid es_proposer]; assumption.
    - destruct Ho as [Hc He]. unfold new_block_commitment. destruct (find _ _).
      + destruct (_ =? _); split; assumption.
      + cbn [fst]. split; cbn [c_esigs c_commits].
        * apply add_endorsement_sg; cbn [es_valid es_proposer]; [exact Hc|].
          apply (fold_add_inv (es_all es_sg) (fun e => mkES (cm_proposer m) (cm_empty m) (snd e))); [|exact Hes].
          intros e es Hin Hes'. apply add_endorsement_sg; cbn [es_valid es_proposer]; [|exact Hes'].
          intro Hv. apply He. destruct e as [i v]; cbn in *; subst v; exact Hin.
        * intros m' Hm'. apply in_app_or in Hm'. destruct Hm' as [Hm'|[<-|[]]]; [apply Hcm; exact Hm'|].
          split; assumption.
  Qed.

  Lemma run_ops_sg ops : (forall o, In o ops -> op_sg o) -> st_sg (run_ops ops cand_empty).
  Proof.
    assert (G : forall ops st, (forall o, In o ops -> op_sg o) -> st_sg st -> st_sg (run_ops ops st)).
    { induction ops0 as [|o r IH]; intros st Ho Hst; cbn [run_ops]; [exact Hst|].
      apply IH; [intros o' Ho'; apply Ho; right; exact Ho'|].
      apply receive_sg; [apply Ho; left; reflexivity|exact Hst]. }
    intro H. apply G; [exact H|]. split; [intros e l Hg; cbn in Hg; discriminate|intros m []].
  Qed.

  (** a valid signer in the sense of C31 is the proposer or a peer that signed for it *)
  Lemma valid_signer_sg peers st p i :
    st_sg st -> valid_signer_for peers st p i -> In i peers /\ (i = p \/ Sg i p).
  Proof.
    intros [Hes Hcm] [Hin H]. split; [exact Hin|].
    destruct H as [H|[(m & Hm & Hp & Hv)|(l & s & Hg & Hs & Hp & Hv)]]; [left; exact H| |]; right.
    - destruct (Hcm m Hm) as [Hc He]. destruct Hv as [[Hi Hv]|Hv]; subst p.
      + subst i. apply Hc; exact Hv.
      + apply He; exact Hv.
    - subst p. apply (Hes i l Hg s Hs Hv).
  Qed.
End Backing.

(** * Without empty-block endorsements and commitments the verdict is never "for empty" *)
Definition esl_ne (l : list esig) : Prop := forall s, In s l -> es_empty s = false.
Definition st_ne (st : cand) : Prop :=
  es_all (fun _ l => esl_ne l) (c_esigs st) /\ forall m, In m (c_commits st) -> cm_empty m = false.

Lemma add_endorsement_ne e s cm es :
  es_empty s = false -> es_all (fun _ l => esl_ne l) es -> es_all (fun _ l => esl_ne l) (add_endorsement e s cm es).
Proof.
  intros Hs H. apply add_endorsement_all; [exact H| |].
  - intros s' [<-|[]]; exact Hs.
  - intros l _ Hl _ _ s' Hs'. apply in_app_or in Hs'. destruct Hs' as [Hs'|[<-|[]]]; [apply Hl; exact Hs'|exact Hs].
Qed.

Lemma receive_ne o st : op_nonemptyb o = true -> st_ne st -> st_ne (fst (receive o st)).
Proof.
  intros Ho [Hes Hcm].
  destruct o as [ok p|sndr ok m|sndr ok m]; cbn [receive op_nonemptyb] in *;
    destruct (passes ok); cbn [fst]; try (split; assumption).
  - unfold new_block_proposal. destruct (find _ _).
    + destruct (_ =? _); split; assumption.
    + cbn [fst]. split; cbn [c_esigs c_commits]; [|exact Hcm].
      apply add_endorsement_ne; [reflexivity|exact Hes].
  - apply negb_true_iff in Ho. cbn [new_block_endorsement fst]. split; cbn [c_esigs c_commits]; [|exact Hcm].
    apply add_endorsement_ne; [exact Ho|exact Hes].
  - apply negb_true_iff in Ho. unfold new_block_commitment. destruct (find _ _).
    + destruct (_ =? _); split; assumption.
    + cbn [fst]. split; cbn [c_esigs c_commits].
      * apply add_endorsement_ne; [exact Ho|].
        apply (fold_add_inv (es_all (fun _ l => esl_ne l)) (fun e => mkES (cm_proposer m) (cm_empty m) (snd e))); [|exact Hes].
        intros e es _ Hes'. apply add_endorsement_ne; [exact Ho|exact Hes'].
      * intros m' Hm'. apply in_app_or in Hm'. destruct Hm' as [Hm'|[<-|[]]]; [apply Hcm; exact Hm'|exact Ho].
Qed.

Lemma run_ops_ne ops : forallb op_nonemptyb ops = true -> st_ne (run_ops ops cand_empty).
Proof.
  intro H. apply (run_ops_inv st_ne op_nonemptyb).
  - intros o st; apply receive_ne.
  - exact H.
  - split; [intros e l Hg; cbn in Hg; discriminate|intros m []].
Qed.

Lemma gcc_loop_ne n msgs : forall ec c sc,
  (forall m, In m msgs -> cm_empty m = false) -> snd (gcc_loop n msgs ec false c sc) = false.
Proof.
  induction msgs as [|m r IH]; intros ec c sc H; cbn [gcc_loop]; [reflexivity|].
  rewrite (H m (or_introl eq_refl)). cbn [andb].
  match goal with |- snd (if ?b then _ else _) = _ => destruct b end; [reflexivity|].
  apply IH. intros m' Hm'. apply H; right; exact Hm'.
Qed.

Definition p2_ne (st : p2) : Prop := p2_empty st = 0 /\ p2_forEmpty st = false.

Lemma cd_inner_ne C' sigs : forall st, esl_ne sigs -> p2_ne st -> p2_ne (cd_inner C' sigs st).
Proof.
  induction sigs as [|s r IH]; intros st Hl [He Hf]; cbn [cd_inner]; [split; assumption|].
  rewrite (Hl s (or_introl eq_refl)).
  assert (Hr : esl_ne r) by (intros s' Hs'; apply Hl; right; exact Hs').
  match goal with |- p2_ne (if ?b then _ else _) => destruct b end.
  - split; cbn [p2_empty p2_forEmpty]; [exact He|]. rewrite Hf, He. destruct C'; reflexivity.
  - apply IH; [exact Hr|split; assumption].
Qed.

Lemma count_empty_ne sigs : esl_ne sigs -> count_empty sigs = 0.
Proof.
  intro H. unfold count_empty. replace (filter es_empty sigs) with (@nil esig); [reflexivity|].
  symmetry. induction sigs as [|s r IH]; [reflexivity|]. cbn [filter].
  rewrite (H s (or_introl eq_refl)). apply IH. intros s' Hs'; apply H; right; exact Hs'.
Qed.

Lemma cd_outer_ne isE C' es ord : forall st,
  es_all (fun _ l => esl_ne l) es -> p2_ne st -> p2_ne (cd_outer isE C' es ord st).
Proof.
  induction ord as [|e r IH]; intros st Hes Hst; cbn [cd_outer]; [exact Hst|].
  destruct (aget e es) as [sigs|] eqn:Eg; [|apply IH; assumption].
  assert (Hs : esl_ne sigs) by (apply (Hes e sigs Eg)).
  assert (H1 : p2_ne (if isE e then st
                      else mkP2 (p2_empty st + count_empty sigs) (p2_cnt st) (p2_proposer st) (p2_forEmpty st))).
  { destruct (isE e); [exact Hst|]. destruct Hst as [He Hf]. split; cbn [p2_empty p2_forEmpty]; [|exact Hf].
    rewrite He, (count_empty_ne _ Hs). reflexivity. }
  pose proof (cd_inner_ne C' sigs _ Hs H1) as H2.
  destruct (_ =? MAXU32); [apply IH; assumption|exact H2].
Qed.

Lemma commit_done_ne isE ord st c n p fe :
  st_ne st -> commit_done isE ord st c n = (p, fe, true) -> fe = false.
Proof.
  intros [Hes Hcm] H. unfold commit_done in H.
  pose proof (gcc_loop_ne (Z.of_N n) (c_commits st) 0%Z (Z.of_N c) [] Hcm) as Hg.
  unfold get_commit_consensus in H.
  destruct (gcc_loop (Z.of_N n) (c_commits st) 0%Z false (Z.of_N c) []) as [p0 fe0]. cbn [snd] in Hg. subst fe0.
  destruct (p0 =? MAXU32) eqn:E0.
  - pose proof (cd_outer_ne isE (commit_done_threshold n) (c_esigs st) ord (mkP2 0 [] p0 false) Hes
                  (conj eq_refl eq_refl)) as [_ Hf].
    destruct (cd_outer _ _ _ _ _) as [a b pr f]. cbn [p2_proposer p2_forEmpty] in *.
    destruct (pr =? MAXU32); inversion H; congruence.
  - rewrite E0 in H. inversion H; reflexivity.
Qed.

(** * The node invariant *)
Definition prop_ok (m : msg) : Prop := match m with MProposal p _ signer => signer = p | _ => True end.

Definition signed_blocks (nd : node) : list blk := map snd (n_signed nd).

Section NodeInv.
  Variable P : params.
  Variable self : N.

  Definition own_sig (nd : node) (s : sg) : Prop := fst s = self /\ In (snd s) (signed_blocks nd).

  (** Evidence for a seal of block (p, k, fe): commitDone said so on a prefix of what the pool was
      given, and a proposal (p, k) that passed the receive check is known. *)
  Definition Ev (nd : node) (p k : N) (fe : bool) : Prop :=
    exists ops' isE' ord, prefix ops' (n_ops nd) /\ NoDup ord /\
      commit_done isE' ord (run_ops ops' cand_empty) (P_c P) (P_n P) = (p, fe, true) /\
      exists signer, In (MProposal p k signer) (n_seen nd).

  Record LInv (B : list sg) (nd : node) : Prop := mkLInv {
    li_seen : forall m, In m (n_seen nd) ->
              prop_ok m /\ forall s, In s (sigs_of m) -> In s B \/ own_sig nd s;
    li_q : incl (n_q nd) (n_seen nd);
    li_msgs : incl (n_msgs nd) (n_seen nd);
    li_ops : forall o, In o (n_ops nd) -> exists m, In m (n_seen nd) /\ o = to_op m;
    li_act : forall p k fe, In (ASeal p k fe) (n_actions nd) -> Ev nd p k fe;
    li_sealed : forall b, n_sealed nd = Some b -> Ev nd (b_proposer b) (b_variant b) (b_empty b) }.

  Record Frame (nd nd' : node) (outs : list msg) : Prop := mkFrame {
    fr_signed : incl (signed_blocks nd) (signed_blocks nd');
    fr_seen : incl (n_seen nd) (n_seen nd');
    fr_ops : prefix (n_ops nd) (n_ops nd');
    fr_outs : forall m, In m outs -> In m (n_seen nd') }.

  Definition Good (B : list sg) (nd : node) (r : node * list msg) : Prop :=
    LInv B nd -> LInv B (fst r) /\ Frame nd (fst r) (snd r).

  Lemma frame_refl nd : Frame nd nd [].
  Proof. split; [apply incl_refl|apply incl_refl|apply prefix_refl|intros m []]. Qed.

  Lemma frame_trans a b c o1 o2 : Frame a b o1 -> Frame b c o2 -> Frame a c (o1 ++ o2).
  Proof.
    intros [s1 e1 p1 u1] [s2 e2 p2 u2]. split.
    - eapply incl_tran; eassumption.
    - eapply incl_tran; eassumption.
    - destruct p1 as [r1 E1], p2 as [r2 E2]. exists (r1 ++ r2). rewrite E2, E1. symmetry; apply app_assoc.
    - intros m Hm. apply in_app_or in Hm. destruct Hm as [Hm|Hm]; [apply e2, u1; exact Hm|apply u2; exact Hm].
  Qed.

  Lemma good_refl B nd : Good B nd (nd, []).
  Proof. intro H; split; [exact H|apply frame_refl]. Qed.

  Lemma good_trans B nd nd1 o1 r :
    Good B nd (nd1, o1) -> Good B nd1 r -> Good B nd (fst r, o1 ++ snd r).
  Proof.
    intros G1 G2 H. destruct (G1 H) as [H1 F1]. destruct (G2 H1) as [H2 F2]. cbn [fst snd] in *.
    split; [exact H2|eapply frame_trans; eassumption].
  Qed.

  Lemma linv_mono B B' nd : incl B B' -> LInv B nd -> LInv B' nd.
  Proof.
    intros Hi [h1 h2 h3 h4 h5 h6]. split; try assumption.
    intros m Hm. destruct (h1 m Hm) as [Hp Hs]. split; [exact Hp|].
    intros s Hin. destruct (Hs s Hin) as [H|H]; [left; apply Hi; exact H|right; exact H].
  Qed.

  Lemma ev_mono nd nd' p k fe :
    prefix (n_ops nd) (n_ops nd') -> incl (n_seen nd) (n_seen nd') -> Ev nd p k fe -> Ev nd' p k fe.
  Proof.
    intros Hp Hs (ops' & isE' & ord & Hpre & Hnd & Hcd & signer & Hin).
    exists ops', isE', ord. repeat split; try assumption.
    - destruct Hpre as [r1 E1], Hp as [r2 E2]. exists (r1 ++ r2). rewrite E2, E1. symmetry; apply app_assoc.
    - exists signer. apply Hs; exact Hin.
  Qed.

  Lemma own_sig_mono nd nd' s : incl (signed_blocks nd) (signed_blocks nd') -> own_sig nd s -> own_sig nd' s.
  Proof. intros Hi [H1 H2]. split; [exact H1|apply Hi; exact H2]. Qed.

  (** A generic way to re-establish the invariant after a state change that only appends. *)
  Lemma linv_extend B nd nd' :
    LInv B nd ->
    incl (signed_blocks nd) (signed_blocks nd') ->
    prefix (n_ops nd) (n_ops nd') ->
    (forall m, In m (n_seen nd') -> In m (n_seen nd) \/
               (prop_ok m /\ forall s, In s (sigs_of m) -> In s B \/ own_sig nd' s)) ->
    incl (n_seen nd) (n_seen nd') ->
    incl (n_q nd') (n_seen nd') -> incl (n_msgs nd') (n_seen nd') ->
    (forall o, In o (n_ops nd') -> In o (n_ops nd) \/ exists m, In m (n_seen nd') /\ o = to_op m) ->
    (forall p k fe, In (ASeal p k fe) (n_actions nd') -> In (ASeal p k fe) (n_actions nd) \/ Ev nd' p k fe) ->
    (forall b, n_sealed nd' = Some b -> n_sealed nd = Some b \/ Ev nd' (b_proposer b) (b_variant b) (b_empty b)) ->
    LInv B nd'.
  Proof.
    intros [h1 h2 h3 h4 h5 h6] Hsg Hops Hseen Hincl Hq Hm Ho Ha Hs. split.
    - intros m Hin. destruct (Hseen m Hin) as [Hold|Hnew]; [|exact Hnew].
      destruct (h1 m Hold) as [Hp Hsig]. split; [exact Hp|].
      intros s Hs'. destruct (Hsig s Hs') as [H|H]; [left; exact H|right; eapply own_sig_mono; eassumption].
    - exact Hq.
    - exact Hm.
    - intros o Hin. destruct (Ho o Hin) as [Hold|Hnew]; [|exact Hnew].
      destruct (h4 o Hold) as (m & Hm' & E). exists m; split; [apply Hincl; exact Hm'|exact E].
    - intros p k fe Hin. destruct (Ha p k fe Hin) as [Hold|Hnew]; [|exact Hnew].
      eapply ev_mono; [exact Hops|exact Hincl|apply h5; exact Hold].
    - intros b Hb. destruct (Hs b Hb) as [Hold|Hnew]; [|exact Hnew].
      eapply ev_mono; [exact Hops|exact Hincl|apply h6; exact Hold].
  Qed.
End NodeInv.

(** * The handlers preserve the node invariant *)
Section Handlers.
  Variable P : params.
  Variable self : N.
  Variable B : list sg.
  Notation LInv := (LInv P self).
  Notation Good := (Good P self).
  Notation Ev := (Ev P).

  Ltac fields nd := destruct nd as [ops msgs en ee cm cd sl q acts sgn seen].

  Lemma spe_some nd p k fe nd1 :
    set_proposal_endorsed nd p k fe = Some nd1 ->
    nd1 = nd \/ nd1 = upd_endorsed nd (Some (p, k)) \/ nd1 = upd_endorsed_empty nd (Some (p, k)).
  Proof.
    unfold set_proposal_endorsed. destruct (negb (has_cand nd)); [discriminate|].
    destruct (negb fe).
    - destruct (n_endorsed nd) as [[p' k']|]; [destruct (p' =? p); [|discriminate]|]; intro H; inversion H; auto.
    - destruct (n_endorsed_empty nd); [discriminate|]. intro H; inversion H; auto.
  Qed.

  Lemma spc_some nd p k fe nd1 :
    set_proposal_committed nd p k fe = Some nd1 ->
    n_committed nd = (None, None) /\
    nd1 = upd_committed nd (if fe then (None, Some (p, k)) else (Some (p, k), None)).
  Proof.
    unfold set_proposal_committed. destruct (n_committed nd) as [cb ce]. destruct (negb (has_cand nd)); [discriminate|].
    assert (Hg : set_committed_cross_kind_guard = true) by reflexivity. rewrite Hg. cbn [andb].
    destruct cb as [[pb kb]|]; cbn [is_some orb]; [discriminate|].
    destruct ce as [[pe ke]|]; cbn [is_some orb]; [discriminate|].
    destruct fe; intro H; inversion H; split; reflexivity.
  Qed.

  Lemma emit_good nd kd h m bc :
    prop_ok m ->
    (forall s, In s (sigs_of m) -> s = (self, h) \/ In s B \/ own_sig self nd s) ->
    Good B nd (emit nd kd h m bc, if bc then [m] else []).
  Proof.
    intros Hpm Hsig Hinv. cbn [fst snd].
    assert (Hsb : forall nd', signed_blocks nd' = signed_blocks nd ++ [h] ->
                  incl (signed_blocks nd) (signed_blocks nd')).
    { intros nd' E x Hx. rewrite E. apply in_or_app; left; exact Hx. }
    assert (Hnew : forall nd', signed_blocks nd' = signed_blocks nd ++ [h] ->
              prop_ok m /\ forall s, In s (sigs_of m) -> In s B \/ own_sig self nd' s).
    { intros nd' E. split; [exact Hpm|]. intros s Hs. destruct (Hsig s Hs) as [->|[H|H]].
      - right. split; [reflexivity|]. cbn [snd]. rewrite E. apply in_or_app; right; left; reflexivity.
      - left; exact H.
      - right. eapply own_sig_mono; [apply Hsb; exact E|exact H]. }
    fields nd. unfold emit, signed_blocks in *. cbn in *.
    assert (E : map snd (sgn ++ [(kd, h)]) = map snd sgn ++ [h]) by (rewrite map_app; reflexivity).
    destruct bc; cbn.
    - split.
      + eapply linv_extend; [exact Hinv| | | | | | | | |]; cbn.
        * rewrite E. intros x Hx; apply in_or_app; left; exact Hx.
        * apply prefix_refl.
        * intros m' Hm'. apply in_app_or in Hm'. destruct Hm' as [Hm'|[<-|[]]]; [left; exact Hm'|right].
          apply (Hnew (mkNode ops (add_msg m msgs) en ee cm cd sl (q ++ [m]) acts (sgn ++ [(kd, h)]) (seen ++ [m]))).
          exact E.
        * intros x Hx; apply in_or_app; left; exact Hx.
        * intros x Hx. apply in_app_or in Hx. apply in_or_app.
          destruct Hx as [Hx|Hx]; [left; apply (li_q _ _ _ _ Hinv); exact Hx|right; exact Hx].
        * intros x Hx. apply in_add_msg in Hx. apply in_or_app.
          destruct Hx as [->|Hx]; [right; left; reflexivity|left; apply (li_msgs _ _ _ _ Hinv); exact Hx].
        * intros o Ho; left; exact Ho.
        * intros p k fe Hin; left; exact Hin.
        * intros b Hb; left; exact Hb.
      + split; cbn.
        * rewrite E. intros x Hx; apply in_or_app; left; exact Hx.
        * intros x Hx; apply in_or_app; left; exact Hx.
        * apply prefix_refl.
        * intros m' [<-|[]]. apply in_or_app; right; left; reflexivity.
    - split.
      + eapply linv_extend; [exact Hinv| | | | | | | | |]; cbn.
        * rewrite E. intros x Hx; apply in_or_app; left; exact Hx.
        * apply prefix_refl.
        * intros m' Hm'. apply in_app_or in Hm'. destruct Hm' as [Hm'|[<-|[]]]; [left; exact Hm'|right].
          apply (Hnew (mkNode ops msgs en ee cm cd sl (q ++ [m]) acts (sgn ++ [(kd, h)]) (seen ++ [m]))).
          exact E.
        * intros x Hx; apply in_or_app; left; exact Hx.
        * intros x Hx. apply in_app_or in Hx. apply in_or_app.
          destruct Hx as [Hx|Hx]; [left; apply (li_q _ _ _ _ Hinv); exact Hx|right; exact Hx].
        * intros x Hx. apply in_or_app. left; apply (li_msgs _ _ _ _ Hinv); exact Hx.
        * intros o Ho; left; exact Ho.
        * intros p k fe Hin; left; exact Hin.
        * intros b Hb; left; exact Hb.
      + split; cbn.
        * rewrite E. intros x Hx; apply in_or_app; left; exact Hx.
        * intros x Hx; apply in_or_app; left; exact Hx.
        * apply prefix_refl.
        * intros m' [].
  Qed.

  Definition core_eq (nd nd' : node) : Prop :=
    n_ops nd' = n_ops nd /\ n_msgs nd' = n_msgs nd /\ n_sealed nd' = n_sealed nd /\ n_q nd' = n_q nd /\
    n_actions nd' = n_actions nd /\ n_signed nd' = n_signed nd /\ n_seen nd' = n_seen nd.

  Lemma core_eq_good nd nd' : core_eq nd nd' -> Good B nd (nd', []).
  Proof.
    intros (E1 & E2 & E3 & E4 & E5 & E6 & E7) Hinv. cbn [fst snd].
    assert (Es : signed_blocks nd' = signed_blocks nd) by (unfold signed_blocks; rewrite E6; reflexivity).
    split.
    - eapply linv_extend; [exact Hinv| | | | | | | | |].
      + rewrite Es; apply incl_refl.
      + rewrite E1; apply prefix_refl.
      + intros m Hm; left; rewrite <- E7; exact Hm.
      + rewrite E7; apply incl_refl.
      + rewrite E4, E7. apply (li_q _ _ _ _ Hinv).
      + rewrite E2, E7. apply (li_msgs _ _ _ _ Hinv).
      + intros o Ho; left; rewrite <- E1; exact Ho.
      + intros p k fe Hin; left; rewrite <- E5; exact Hin.
      + intros b Hb; left; rewrite <- E3; exact Hb.
    - split; [rewrite Es; apply incl_refl|rewrite E7; apply incl_refl|rewrite E1; apply prefix_refl|intros m []].
  Qed.

  Lemma core_eq_refl nd : core_eq nd nd.
  Proof. repeat split. Qed.

  Lemma collect_ends_in msgs h fe i s :
    In (i, s) (collect_ends msgs h fe) -> exists en p e h', In (MEndorse en p e h' s) msgs.
  Proof.
    unfold collect_ends.
    assert (G : forall msgs acc, In (i, s) (fold_left (fun acc m =>
                match m with
                | MEndorse en _ e h' s => if blk_eqb h' h && eqb e fe then aset en s acc else acc
                | _ => acc
                end) msgs acc) ->
              In (i, s) acc \/ exists en p e h', In (MEndorse en p e h' s) msgs).
    { induction msgs0 as [|m r IH]; intros acc H; cbn [fold_left] in H; [left; exact H|].
      destruct (IH _ H) as [Hacc|(en & p & e & h' & Hin)].
      - destruct m as [p k sg0|en p e h' s'|]; try (left; exact Hacc).
        destruct (blk_eqb h' h && eqb e fe); [|left; exact Hacc].
        apply in_aset in Hacc. destruct Hacc as [Heq|Hacc]; [|left; exact Hacc].
        inversion Heq; subst. right. exists en, p, e, h'. left; reflexivity.
      - right. exists en, p, e, h'. right; exact Hin. }
    intro H. destruct (G msgs [] H) as [[]|H']; exact H'.
  Qed.

  Lemma endorse_block_good nd p k fe : Good B nd (endorse_block P self nd p k fe).
  Proof.
    unfold endorse_block. destruct (p =? self); [apply good_refl|].
    destruct (_ || _); [apply good_refl|].
    set (fe' := if negb fe && endorse_failed (pool nd) (P_c P) then true else fe).
    destruct (set_proposal_endorsed nd p k fe') as [nd1|] eqn:E; [|apply good_refl].
    assert (Hc : core_eq nd nd1).
    { destruct (spe_some _ _ _ _ _ E) as [-> | [-> | ->]]; [apply core_eq_refl| |]; repeat split. }
    set (bc := fe' || isE P self).
    change (if bc then [MEndorse self p fe' (mkBlk p k fe') (self, mkBlk p k fe')] else [])
      with (snd (emit nd1 SEndorse (mkBlk p k fe') (MEndorse self p fe' (mkBlk p k fe') (self, mkBlk p k fe')) bc,
                 if bc then [MEndorse self p fe' (mkBlk p k fe') (self, mkBlk p k fe')] else [])).
    change (emit nd1 SEndorse (mkBlk p k fe') (MEndorse self p fe' (mkBlk p k fe') (self, mkBlk p k fe')) bc)
      with (fst (emit nd1 SEndorse (mkBlk p k fe') (MEndorse self p fe' (mkBlk p k fe') (self, mkBlk p k fe')) bc,
                 if bc then [MEndorse self p fe' (mkBlk p k fe') (self, mkBlk p k fe')] else [])) at 1.
    apply (good_trans P self B nd nd1 []); [apply core_eq_good; exact Hc|].
    apply emit_good; [exact I|]. intros s [<-|[]]. left; reflexivity.
  Qed.

  Lemma good_seq nd nd1 nd2 o : Good B nd (nd1, []) -> Good B nd1 (nd2, o) -> Good B nd (nd2, o).
  Proof. intros G1 G2. exact (good_trans P self B nd nd1 [] (nd2, o) G1 G2). Qed.

  Lemma good_seq2 nd nd1 nd2 o1 o2 : Good B nd (nd1, o1) -> Good B nd1 (nd2, o2) -> Good B nd (nd2, o1 ++ o2).
  Proof. intros G1 G2. exact (good_trans P self B nd nd1 o1 (nd2, o2) G1 G2). Qed.

  Lemma commit_tail_good nd p k fe : Good B nd (commit_tail P self nd p k fe).
  Proof.
    unfold commit_tail.
    destruct (set_proposal_committed nd p k fe) as [nd1|] eqn:E; [|apply good_refl].
    apply spc_some in E. destruct E as [_ ->].
    apply (good_seq nd (upd_committed nd (if fe then (None, Some (p, k)) else (Some (p, k), None)))).
    - apply core_eq_good. repeat split.
    - intro Hinv1. generalize Hinv1. apply emit_good; [exact I|].
      intros s [<-|Hs]; [left; reflexivity|]. right.
      apply in_map_iff in Hs. destruct Hs as ([i s'] & <- & Hin). cbn [snd].
      apply collect_ends_in in Hin. destruct Hin as (en & p' & e & h' & Hin).
      destruct (li_seen _ _ _ _ Hinv1 _ (li_msgs _ _ _ _ Hinv1 _ Hin)) as [_ Hsig].
      destruct (Hsig s' (or_introl eq_refl)) as [H|H]; [left; exact H|right; exact H].
  Qed.

  Lemma commit_block_good nd p k fe : Good B nd (commit_block P self nd p k fe).
  Proof.
    unfold commit_block. destruct (p =? self); [apply good_refl|].
    destruct (committed_for_block nd); [apply good_refl|apply commit_tail_good].
  Qed.

  Lemma commit_late_good nd p fe : Good B nd (commit_late P self nd p fe).
  Proof.
    unfold commit_late. destruct (p =? self); [apply good_refl|].
    destruct (find_proposal nd p); [apply commit_tail_good|apply good_refl].
  Qed.

  (** findBlockProposal only finds proposals that went through the receive check *)
  Lemma find_proposal_sound nd p k :
    LInv B nd -> find_proposal nd p = Some k -> exists signer, In (MProposal p k signer) (n_seen nd).
  Proof.
    intros Hinv. unfold find_proposal.
    destruct (find (fun q => pp_proposer q =? p) (c_proposals (pool nd))) as [q|] eqn:Ef.
    - intro H; inversion H; subst k. apply find_some in Ef. destruct Ef as [Hin Hp]. apply N.eqb_eq in Hp.
      unfold pool in Hin. apply run_ops_proposals in Hin. destruct Hin as [[]|[ok Hin]].
      destruct (li_ops _ _ _ _ Hinv _ Hin) as (m & Hm & E).
      destruct m as [p' k' signer|en p' e h s|cm0 p' e h s ends]; cbn [to_op] in E; try discriminate.
      inversion E; subst. cbn [pp_proposer pp_sig]. exists signer; exact Hm.
    - destruct (find _ (n_msgs nd)) as [[p' k' signer|?|?]|] eqn:Ef2; try discriminate.
      intro H; inversion H; subst k'. apply find_some in Ef2. destruct Ef2 as [Hin Hp]. apply N.eqb_eq in Hp. subst p'.
      exists signer. apply (li_msgs _ _ _ _ Hinv). exact Hin.
  Qed.

  (** pushing a SealBlock action that carries its evidence *)
  Lemma push_seal_good nd p k fe :
    (LInv B nd -> Ev nd p k fe) -> Good B nd (upd_actions nd (n_actions nd ++ [ASeal p k fe]), []).
  Proof.
    intros Hev Hinv. cbn [fst snd]. specialize (Hev Hinv). split.
    - eapply linv_extend; [exact Hinv| | | | | | | | |]; cbn [upd_actions n_ops n_msgs n_sealed n_q n_actions n_signed n_seen signed_blocks].
      + apply incl_refl.
      + apply prefix_refl.
      + intros m Hm; left; exact Hm.
      + apply incl_refl.
      + apply (li_q _ _ _ _ Hinv).
      + apply (li_msgs _ _ _ _ Hinv).
      + intros o Ho; left; exact Ho.
      + intros p' k' fe' Hin. apply in_app_or in Hin. destruct Hin as [Hin|[Hin|[]]]; [left; exact Hin|right].
        inversion Hin; subst. exact Hev.
      + intros b Hb; left; exact Hb.
    - split; [apply incl_refl|apply incl_refl|apply prefix_refl|intros m []].
  Qed.

  Lemma push_endorse_good nd p k fe : Good B nd (upd_actions nd (n_actions nd ++ [AEndorse p k fe]), []).
  Proof.
    intros Hinv. cbn [fst snd]. split.
    - eapply linv_extend; [exact Hinv| | | | | | | | |]; cbn [upd_actions n_ops n_msgs n_sealed n_q n_actions n_signed n_seen signed_blocks].
      + apply incl_refl.
      + apply prefix_refl.
      + intros m Hm; left; exact Hm.
      + apply incl_refl.
      + apply (li_q _ _ _ _ Hinv).
      + apply (li_msgs _ _ _ _ Hinv).
      + intros o Ho; left; exact Ho.
      + intros p' k' fe' Hin. apply in_app_or in Hin. destruct Hin as [Hin|[Hin|[]]]; [left; exact Hin|discriminate].
      + intros b Hb; left; exact Hb.
    - split; [apply incl_refl|apply incl_refl|apply prefix_refl|intros m []].
  Qed.

  (** evidence from a commitDone verdict on the current pool *)
  Lemma ev_now nd isE' ord p k fe :
    LInv B nd -> NoDup ord ->
    commit_done isE' ord (pool nd) (P_c P) (P_n P) = (p, fe, true) ->
    find_proposal nd p = Some k -> Ev nd p k fe.
  Proof.
    intros Hinv Hnd Hcd Hf. exists (n_ops nd), isE', ord. repeat split; [apply prefix_refl|exact Hnd|exact Hcd|].
    eapply find_proposal_sound; eassumption.
  Qed.

  Lemma good_then_seal nd1 nd3 outs p k fe :
    Good B nd1 (nd3, outs) -> (LInv B nd1 -> Ev nd1 p k fe) ->
    Good B nd1 (upd_actions nd3 (n_actions nd3 ++ [ASeal p k fe]), outs).
  Proof.
    intros G Hev Hinv. destruct (G Hinv) as [H3 F]. cbn [fst snd] in *.
    assert (Hev3 : Ev nd3 p k fe) by (eapply ev_mono; [apply (fr_ops _ _ _ F)|apply (fr_seen _ _ _ F)|apply Hev; exact Hinv]).
    destruct (push_seal_good nd3 p k fe (fun _ => Hev3) H3) as [H4 F4]. cbn [fst snd] in *.
    split; [exact H4|]. rewrite <- (app_nil_r outs). eapply frame_trans; eassumption.
  Qed.

  Lemma pop_only_good nd m r : n_q nd = m :: r -> Good B nd (upd_q nd r, []).
  Proof.
    intros Eq Hinv. cbn [fst snd]. split.
    - eapply linv_extend; [exact Hinv| | | | | | | | |]; cbn [upd_q n_ops n_msgs n_sealed n_q n_actions n_signed n_seen signed_blocks].
      + apply incl_refl.
      + apply prefix_refl.
      + intros m' Hm; left; exact Hm.
      + apply incl_refl.
      + intros x Hx. apply (li_q _ _ _ _ Hinv). rewrite Eq. right; exact Hx.
      + apply (li_msgs _ _ _ _ Hinv).
      + intros o Ho; left; exact Ho.
      + intros p' k' fe' Hin; left; exact Hin.
      + intros b Hb; left; exact Hb.
    - split; [apply incl_refl|apply incl_refl|apply prefix_refl|intros m' []].
  Qed.

  Lemma pop_good nd m r :
    n_q nd = m :: r -> Good B nd (upd_ops (upd_q nd r) (n_ops (upd_q nd r) ++ [to_op m]), []).
  Proof.
    intros Eq Hinv. cbn [fst snd]. split.
    - eapply linv_extend; [exact Hinv| | | | | | | | |];
        cbn [upd_q upd_ops n_ops n_msgs n_sealed n_q n_actions n_signed n_seen signed_blocks].
      + apply incl_refl.
      + exists [to_op m]; reflexivity.
      + intros m' Hm; left; exact Hm.
      + apply incl_refl.
      + intros x Hx. apply (li_q _ _ _ _ Hinv). rewrite Eq. right; exact Hx.
      + apply (li_msgs _ _ _ _ Hinv).
      + intros o Ho. apply in_app_or in Ho. destruct Ho as [Ho|[<-|[]]]; [left; exact Ho|right].
        exists m; split; [|reflexivity]. apply (li_q _ _ _ _ Hinv). rewrite Eq. left; reflexivity.
      + intros p' k' fe' Hin; left; exact Hin.
      + intros b Hb; left; exact Hb.
    - split; cbn [upd_q upd_ops n_ops n_seen n_signed signed_blocks];
        [apply incl_refl|apply incl_refl|exists [to_op m]; reflexivity|intros m' []].
  Qed.

  Lemma process_msg_good nd ord m r :
    NoDup ord -> n_q nd = m :: r -> Good B nd (process_msg P self ord (upd_q nd r) m).
  Proof.
    intros Hnd Eq. unfold process_msg.
    destruct (is_some (n_sealed (upd_q nd r))); [eapply pop_only_good; exact Eq|].
    set (nd1 := upd_ops (upd_q nd r) (n_ops (upd_q nd r) ++ [to_op m])).
    assert (G1 : Good B nd (nd1, [])) by (eapply pop_good; exact Eq).
    destruct m as [p k signer|en p e h s|cm0 p e h s ends].
    - destruct (snd (receive _ _)); try exact G1;
        (destruct (is_leader P p); [|exact G1]; destruct (isE P self); [|exact G1];
         eapply good_seq; [exact G1|apply endorse_block_good]).
    - destruct (committed_for_block nd1); [exact G1|].
      destruct (isE P en); [|exact G1].
      destruct (endorse_done ord (pool nd1) (P_c P)) as [[pr fe] [|]]; [|exact G1].
      destruct (find_proposal nd1 pr) as [k'|]; [|exact G1].
      destruct (isC P self); [|exact G1].
      eapply good_seq; [exact G1|apply commit_block_good].
    - destruct (snd (receive _ _)); try exact G1;
        (destruct (commit_done (isE P) ord (pool nd1) (P_c P) (P_n P)) as [[pr fe] [|]] eqn:Ecd; [|exact G1];
         set (nd2 := upd_commit_done nd1 true);
         assert (G2 : Good B nd (nd2, [])) by (eapply good_seq; [exact G1|apply core_eq_good; repeat split]);
         destruct (find_proposal nd2 pr) as [k'|] eqn:Ef; [|exact G2];
         assert (Hev : LInv B nd2 -> Ev nd2 pr k' fe) by (intro H2; eapply ev_now; eassumption);
         destruct (isC P self);
         [ destruct (commit_block P self nd2 pr k' fe) as [nd3 outs] eqn:Ecb;
           intro Hinv; destruct (G2 Hinv) as [H2 F2]; cbn [fst snd] in H2, F2;
           assert (G3 : Good B nd2 (nd3, outs)) by (rewrite <- Ecb; apply commit_block_good);
           destruct (good_then_seal nd2 nd3 outs pr k' fe G3 Hev H2) as [H4 F4]; cbn [fst snd] in *;
           split; [exact H4|]; change outs with ([] ++ outs); eapply frame_trans; eassumption
         | intro Hinv; destruct (G2 Hinv) as [H2 F2]; cbn [fst snd] in H2, F2;
           destruct (good_then_seal nd2 nd2 [] pr k' fe (good_refl P self B nd2) Hev H2) as [H4 F4]; cbn [fst snd] in *;
           split; [exact H4|]; change (@nil msg) with (@nil msg ++ []); eapply frame_trans; eassumption ]).
  Qed.

  Lemma on_timer_good nd ord t : NoDup ord -> Good B nd (on_timer P self ord nd t).
  Proof.
    intros Hnd. unfold on_timer. destruct (is_some (n_sealed nd)); [apply good_refl|].
    destruct t.
    - destruct (endorsed_for_block nd); [apply good_refl|].
      destruct (highest_rank _ _ _) as [q|]; [|apply good_refl].
      destruct (is_leader P (pp_proposer q)); [apply good_refl|apply push_endorse_good].
    - destruct (committed_for_block nd); [apply good_refl|].
      destruct (endorse_done ord (pool nd) (P_c P)) as [[pr fe] [|]].
      + destruct (find_proposal nd pr); [apply commit_block_good|apply good_refl].
      + destruct (endorsed_for_empty nd); [apply good_refl|].
        destruct (highest_rank _ _ _) as [q|]; [apply endorse_block_good|apply good_refl].
    - destruct (committed_for_block nd); [apply good_refl|].
      destruct (endorse_done ord (pool nd) (P_c P)) as [[pr fe] [|]]; [|apply good_refl].
      destruct (find_proposal nd pr); [apply commit_block_good|apply good_refl].
    - destruct (n_commit_done nd); [apply good_refl|].
      destruct (commit_done (isE P) ord (pool nd) (P_c P) (P_n P)) as [[pr fe] [|]] eqn:Ecd; [|apply good_refl].
      set (nd2 := upd_commit_done nd true).
      assert (G2 : Good B nd (nd2, [])) by (apply core_eq_good; repeat split).
      destruct (find_proposal nd2 pr) as [k'|] eqn:Ef; [|exact G2].
      assert (Hev : LInv B nd2 -> Ev nd2 pr k' fe) by (intro H2; eapply ev_now; eassumption).
      intro Hinv. destruct (G2 Hinv) as [H2 F2]. cbn [fst snd] in H2, F2.
      destruct (good_then_seal nd2 nd2 [] pr k' fe (good_refl P self B nd2) Hev H2) as [H4 F4]. cbn [fst snd] in *.
      split; [exact H4|]. change (@nil msg) with (@nil msg ++ []). eapply frame_trans; eassumption.
  Qed.

  Lemma pop_action_good nd a r : n_actions nd = a :: r -> Good B nd (upd_actions nd r, []).
  Proof.
    intros Eq Hinv. cbn [fst snd]. split.
    - eapply linv_extend; [exact Hinv| | | | | | | | |]; cbn [upd_actions n_ops n_msgs n_sealed n_q n_actions n_signed n_seen signed_blocks].
      + apply incl_refl.
      + apply prefix_refl.
      + intros m' Hm; left; exact Hm.
      + apply incl_refl.
      + apply (li_q _ _ _ _ Hinv).
      + apply (li_msgs _ _ _ _ Hinv).
      + intros o Ho; left; exact Ho.
      + intros p' k' fe' Hin; left. rewrite Eq. right; exact Hin.
      + intros b Hb; left; exact Hb.
    - split; [apply incl_refl|apply incl_refl|apply prefix_refl|intros m' []].
  Qed.

  Lemma do_action_good nd a r : n_actions nd = a :: r -> Good B nd (do_action P self (upd_actions nd r) a).
  Proof.
    intros Eq. set (nd0 := upd_actions nd r).
    assert (G0 : Good B nd (nd0, [])) by (eapply pop_action_good; exact Eq).
    destruct a as [p k e|p k e]; cbn [do_action].
    - destruct (is_some (n_sealed nd0)) eqn:Es; [exact G0|].
      unfold set_block_sealed. destruct (n_sealed nd0) eqn:Esl; [discriminate|].
      intro Hinv. cbn [fst snd].
      assert (Hev : Ev nd p k e) by (apply (li_act _ _ _ _ Hinv); rewrite Eq; left; reflexivity).
      destruct (G0 Hinv) as [H0 F0]. cbn [fst snd] in H0, F0.
      assert (Hev0 : Ev nd0 p k e) by (eapply ev_mono; [apply (fr_ops _ _ _ F0)|apply (fr_seen _ _ _ F0)|exact Hev]).
      split.
      + eapply linv_extend; [exact H0| | | | | | | | |]; cbn [upd_sealed n_ops n_msgs n_sealed n_q n_actions n_signed n_seen signed_blocks].
        * apply incl_refl.
        * apply prefix_refl.
        * intros m' Hm; left; exact Hm.
        * apply incl_refl.
        * apply (li_q _ _ _ _ H0).
        * apply (li_msgs _ _ _ _ H0).
        * intros o Ho; left; exact Ho.
        * intros p' k' fe' Hin; left; exact Hin.
        * intros b Hb. right. inversion Hb; subst b. cbn [b_proposer b_variant b_empty].
          eapply ev_mono; [| |exact Hev0]; cbn [upd_sealed n_ops n_seen]; [apply prefix_refl|apply incl_refl].
      + destruct F0 as [f1 f2 f3 f4]. split; cbn [upd_sealed n_ops n_seen n_signed signed_blocks] in *; assumption.
    - destruct (is_some (n_sealed nd0)); [exact G0|].
      eapply good_seq; [exact G0|apply endorse_block_good].
  Qed.

  Lemma propose_good nd : Good B nd (propose self nd).
  Proof.
    unfold propose. destruct (is_some (n_sealed nd)); [apply good_refl|].
    destruct (existsb _ (n_msgs nd)); [apply good_refl|].
    intro Hinv. cbn [fst snd]. fields nd. unfold signed_blocks in *. cbn in *.
    assert (E : map snd (sgn ++ [(SPropose, mkBlk self 0 false); (SPropose, mkBlk self 0 true)])
                = map snd sgn ++ [mkBlk self 0 false; mkBlk self 0 true]) by (rewrite map_app; reflexivity).
    split.
    - eapply linv_extend; [exact Hinv| | | | | | | | |]; cbn.
      + rewrite E. intros x Hx; apply in_or_app; left; exact Hx.
      + apply prefix_refl.
      + intros m' Hm'. apply in_app_or in Hm'. destruct Hm' as [Hm'|[<-|[]]]; [left; exact Hm'|right].
        split; [reflexivity|]. intros s' Hs'. right. unfold own_sig, signed_blocks. cbn. rewrite E.
        destruct Hs' as [<-|[<-|[]]]; (split; [reflexivity|]); apply in_or_app; right; cbn; auto.
      + intros x Hx; apply in_or_app; left; exact Hx.
      + intros x Hx. apply in_app_or in Hx. apply in_or_app.
        destruct Hx as [Hx|Hx]; [left; apply (li_q _ _ _ _ Hinv); exact Hx|right; exact Hx].
      + intros x Hx. apply in_add_msg in Hx. apply in_or_app.
        destruct Hx as [->|Hx]; [right; left; reflexivity|left; apply (li_msgs _ _ _ _ Hinv); exact Hx].
      + intros o Ho; left; exact Ho.
      + intros p k fe Hin; left; exact Hin.
      + intros b Hb; left; exact Hb.
    - split; cbn.
      + rewrite E. intros x Hx; apply in_or_app; left; exact Hx.
      + intros x Hx; apply in_or_app; left; exact Hx.
      + apply prefix_refl.
      + intros m' [<-|[]]. apply in_or_app; right; left; reflexivity.
  Qed.

  (** a message from the network: its signatures are among those sent *)
  Lemma deliver_good nd from m fresh :
    (forall s, In s (sigs_of m) -> In s B) -> Good B nd (deliver nd from m fresh, []).
  Proof.
    intros Hsig. unfold deliver. destruct (is_some (n_sealed nd)); [apply good_refl|].
    destruct (passes (verify_ok from m)) eqn:Ev0; cbn [negb]; [|apply good_refl].
    destruct (_ && _); [apply good_refl|].
    assert (Hp : prop_ok m).
    { destruct m as [p k signer|?|?]; cbn [prop_ok]; try exact I.
      unfold passes in Ev0. cbn [verify_ok] in Ev0.
      assert (Hr : recv_verifies_sender_sig = true) by reflexivity. rewrite Hr in Ev0.
      apply N.eqb_eq in Ev0. exact Ev0. }
    intro Hinv. cbn [fst snd]. fields nd. unfold signed_blocks in *. cbn in *. split.
    - eapply linv_extend; [exact Hinv| | | | | | | | |]; cbn.
      + apply incl_refl.
      + apply prefix_refl.
      + intros m' Hm'. apply in_app_or in Hm'. destruct Hm' as [Hm'|[<-|[]]]; [left; exact Hm'|right].
        split; [exact Hp|]. intros s' Hs'. left. apply Hsig; exact Hs'.
      + intros x Hx; apply in_or_app; left; exact Hx.
      + intros x Hx. apply in_app_or in Hx. apply in_or_app.
        destruct Hx as [Hx|Hx]; [left; apply (li_q _ _ _ _ Hinv); exact Hx|right; exact Hx].
      + intros x Hx. apply in_add_msg in Hx. apply in_or_app.
        destruct Hx as [->|Hx]; [right; left; reflexivity|left; apply (li_msgs _ _ _ _ Hinv); exact Hx].
      + intros o Ho; left; exact Ho.
      + intros p k fe Hin; left; exact Hin.
      + intros b Hb; left; exact Hb.
    - split; cbn.
      + apply incl_refl.
      + intros x Hx; apply in_or_app; left; exact Hx.
      + apply prefix_refl.
      + intros m' [].
  Qed.

  Lemma local_step_good nd ev :
    match ev with
    | LNet from m _ => forall s, In s (sigs_of m) -> In s B
    | LProc ord => NoDup ord
    | LTimer _ ord => NoDup ord
    | _ => True
    end -> Good B nd (local_step P self nd ev).
  Proof.
    destruct ev as [from m fresh|ord| |t ord| |p e]; cbn [local_step]; intro H; [| | | | |apply commit_late_good].
    - apply deliver_good; exact H.
    - destruct (n_q nd) as [|m r] eqn:Eq; [apply good_refl|]. apply process_msg_good; assumption.
    - destruct (n_actions nd) as [|a r] eqn:Eq; [apply good_refl|]. apply do_action_good; assumption.
    - apply on_timer_good; exact H.
    - apply propose_good.
  Qed.
End Handlers.

(** * The global invariant *)
Section Global.
  Variable P : params.

  Definition NetInv (cfg : config) : Prop :=
    forall s, In s (allsigs (c_net cfg)) -> honestb P (fst s) = true ->
              In (snd s) (signed_blocks (node_of cfg (fst s))).

  Definition GInv (cfg : config) : Prop :=
    (forall a, honestb P a = true -> LInv P a (allsigs (c_net cfg)) (node_of cfg a)) /\ NetInv cfg.

  Lemma linv_node0 a Bs : LInv P a Bs node0.
  Proof.
    split; cbn.
    - intros m [].
    - intros x [].
    - intros x [].
    - intros o [].
    - intros p k fe [].
    - intros b Hb; discriminate.
  Qed.

  Lemma ginv_init : GInv cfg0.
  Proof. split; [intros a _; apply linv_node0|intros s []]. Qed.

  Lemma node_of_same cfg a nd net : node_of (mkCfg (aset a nd (c_nodes cfg)) net) a = nd.
  Proof. unfold node_of. cbn [c_nodes]. rewrite aget_aset_same. reflexivity. Qed.

  Lemma node_of_other cfg a b nd net : b <> a -> node_of (mkCfg (aset a nd (c_nodes cfg)) net) b = node_of cfg b.
  Proof. intro H. unfold node_of. cbn [c_nodes]. rewrite aget_aset_other; [reflexivity|exact H]. Qed.

  Lemma allsigs_app a b : allsigs (a ++ b) = allsigs a ++ allsigs b.
  Proof. unfold allsigs. apply flat_map_app. Qed.

  Lemma allsigs_outs a outs : allsigs (map (mkPkt a) outs) = flat_map sigs_of outs.
  Proof. unfold allsigs. induction outs as [|m r IH]; cbn; [reflexivity|rewrite IH; reflexivity]. Qed.

  Lemma in_net_sigs from m net s : In (mkPkt from m) net -> In s (sigs_of m) -> In s (allsigs net).
  Proof. intros Hin Hs. unfold allsigs. apply in_flat_map. exists (mkPkt from m). split; assumption. Qed.

  Lemma ginv_step cfg e cfg' : GInv cfg -> step P cfg e = Some cfg' -> GInv cfg'.
  Proof.
    intros [HL HN] Hstep. destruct e as [a ev|pk]; cbn [step] in Hstep.
    - destruct (honestb P a) eqn:Ha; cbn [andb] in Hstep; [|discriminate].
      destruct (lev_ok (c_net cfg) ev) eqn:Hok; [|discriminate].
      destruct (local_step P a (node_of cfg a) ev) as [nd' outs] eqn:Els. inversion Hstep; subst cfg'. clear Hstep.
      assert (Hpre : match ev with
                     | LNet from m _ => forall s, In s (sigs_of m) -> In s (allsigs (c_net cfg))
                     | LProc ord => NoDup ord
                     | LTimer _ ord => NoDup ord
                     | _ => True
                     end).
      { destruct ev as [from m fresh|ord| |t ord| |p e]; cbn [lev_ok] in Hok; try exact I.
        - intros s Hs. eapply in_net_sigs; [|exact Hs]. apply (existsb_In pkt_eqb pkt_eqb_eq). exact Hok.
        - apply nodupb_NoDup; exact Hok.
        - apply nodupb_NoDup; exact Hok. }
      pose proof (local_step_good P a (allsigs (c_net cfg)) (node_of cfg a) ev Hpre (HL a Ha)) as [Hn F].
      rewrite Els in Hn, F. cbn [fst snd] in Hn, F.
      assert (Hinc : incl (allsigs (c_net cfg)) (allsigs (c_net cfg ++ map (mkPkt a) outs))).
      { rewrite allsigs_app. intros x Hx. apply in_or_app; left; exact Hx. }
      split.
      + intros b Hb. cbn [c_net]. destruct (N.eq_dec b a) as [->|Hne].
        * rewrite node_of_same. eapply linv_mono; [exact Hinc|exact Hn].
        * rewrite node_of_other by exact Hne. eapply linv_mono; [exact Hinc|apply HL; exact Hb].
      + intros s Hs Hh. cbn [c_net] in Hs. rewrite allsigs_app in Hs. apply in_app_or in Hs.
        assert (Hold : In s (allsigs (c_net cfg)) ->
                       In (snd s) (signed_blocks (node_of (mkCfg (aset a nd' (c_nodes cfg)) (c_net cfg ++ map (mkPkt a) outs)) (fst s)))).
        { intro Hs'. destruct (N.eq_dec (fst s) a) as [E|Hne].
          - rewrite E, node_of_same. apply (fr_signed _ _ _ F). rewrite <- E. apply HN; assumption.
          - rewrite node_of_other by exact Hne. apply HN; assumption. }
        destruct Hs as [Hs|Hs]; [apply Hold; exact Hs|].
        rewrite allsigs_outs in Hs. apply in_flat_map in Hs. destruct Hs as (m & Hm & Hsm).
        destruct (li_seen _ _ _ _ Hn m (fr_outs _ _ _ F m Hm)) as [_ Hsig].
        destruct (Hsig s Hsm) as [Hb|[Hf Hsb]]; [apply Hold; exact Hb|].
        rewrite Hf, node_of_same. exact Hsb.
    - destruct (byz_ok P (c_net cfg) pk) eqn:Hb; [|discriminate]. inversion Hstep; subst cfg'. clear Hstep.
      assert (Hinc : incl (allsigs (c_net cfg)) (allsigs (c_net cfg ++ [pk]))).
      { rewrite allsigs_app. intros x Hx. apply in_or_app; left; exact Hx. }
      split.
      + intros a Ha. cbn [c_net]. change (node_of (mkCfg (c_nodes cfg) (c_net cfg ++ [pk])) a) with (node_of cfg a).
        eapply linv_mono; [exact Hinc|apply HL; exact Ha].
      + intros s Hs Hh. cbn [c_net] in Hs. rewrite allsigs_app in Hs. apply in_app_or in Hs.
        change (node_of (mkCfg (c_nodes cfg) (c_net cfg ++ [pk])) (fst s)) with (node_of cfg (fst s)).
        destruct Hs as [Hs|Hs]; [apply HN; assumption|].
        unfold allsigs in Hs. cbn [flat_map] in Hs. rewrite app_nil_r in Hs.
        unfold byz_ok in Hb. apply andb_true_iff in Hb. destruct Hb as [_ Hb].
        rewrite forallb_forall in Hb. specialize (Hb s Hs).
        apply orb_true_iff in Hb. destruct Hb as [Hb|Hb].
        * apply orb_true_iff in Hb. unfold honestb in Hh. apply andb_true_iff in Hh. destruct Hh as [Hp Hnb].
          destruct Hb as [Hb|Hb]; [rewrite Hb in Hnb; discriminate|rewrite Hp in Hb; discriminate].
        * apply HN; [|exact Hh]. apply (existsb_In sg_eqb sg_eqb_eq). exact Hb.
  Qed.

  Lemma ginv_reachable cfg : reachable P cfg -> GInv cfg.
  Proof. induction 1 as [|cfg e cfg' _ IH Hs]; [apply ginv_init|eapply ginv_step; eassumption]. Qed.
End Global.

(** * Assembly: agreement under the five side conditions *)
Section Safety.
  Variable P : params.
  Variable cfg : config.
  Hypothesis Hwf : wf_params P.
  Hypothesis Hinv : GInv P cfg.

  Lemma for_honest_spec f a : for_honest P cfg f = true -> honestb P a = true -> f (node_of cfg a) = true.
  Proof.
    unfold for_honest. rewrite forallb_forall. intros H Ha. assert (Hin : In a (P_peers P)).
    { unfold honestb in Ha. apply andb_true_iff in Ha. apply memN_In. tauto. }
    specialize (H a Hin). rewrite Ha in H. exact H.
  Qed.

  (** peer [i] signed a block of proposer [p] *)
  Definition Sgn (i p : N) : Prop :=
    exists b, b_proposer b = p /\ In b (all_signed P cfg) /\
              (honestb P i = true -> In b (signed_blocks (node_of cfg i))).

  Lemma in_all_signed_own a b : honestb P a = true -> In b (signed_blocks (node_of cfg a)) -> In b (all_signed P cfg).
  Proof.
    intros Ha Hb. unfold all_signed. apply in_or_app; left. apply in_flat_map. exists a. split.
    - unfold honestb in Ha. apply andb_true_iff in Ha. apply memN_In. tauto.
    - rewrite Ha. exact Hb.
  Qed.

  Lemma in_all_signed_net s : In s (allsigs (c_net cfg)) -> In (snd s) (all_signed P cfg).
  Proof. intro H. unfold all_signed. apply in_or_app; right. apply in_map; exact H. Qed.

  Lemma known_sig a s : honestb P a = true ->
    In s (allsigs (c_net cfg)) \/ own_sig a (node_of cfg a) s ->
    In (snd s) (all_signed P cfg) /\ (honestb P (fst s) = true -> In (snd s) (signed_blocks (node_of cfg (fst s)))).
  Proof.
    intros Ha [H|[Hf Hb]].
    - split; [apply in_all_signed_net; exact H|]. intro Hh. apply (proj2 Hinv); assumption.
    - split; [eapply in_all_signed_own; eassumption|]. intros _. rewrite Hf. exact Hb.
  Qed.

  Lemma sig_valid_true s who h p e : sig_valid s who h p e = true -> s = (who, h) /\ b_proposer h = p.
  Proof.
    unfold sig_valid, blk_for. intro H. apply andb_true_iff in H. destruct H as [H Hf].
    apply andb_true_iff in H. destruct H as [Hw Hb]. apply andb_true_iff in Hf. destruct Hf as [Hp _].
    apply N.eqb_eq in Hw. apply blk_eqb_eq in Hb. apply N.eqb_eq in Hp.
    split; [destruct s; cbn in *; subst; reflexivity|exact Hp].
  Qed.

  (** every operation an honest pool was given is backed by existing signatures *)
  Lemma seen_op_sg a m : honestb P a = true -> In m (n_seen (node_of cfg a)) -> op_sg Sgn (to_op m).
  Proof.
    intros Ha Hm. destruct (li_seen _ _ _ _ (proj1 Hinv a Ha) m Hm) as [Hp Hsig].
    assert (K : forall s, In s (sigs_of m) -> In (snd s) (all_signed P cfg) /\
                 (honestb P (fst s) = true -> In (snd s) (signed_blocks (node_of cfg (fst s))))).
    { intros s Hs. apply (known_sig a s Ha). apply Hsig; exact Hs. }
    destruct m as [p k signer|en p e h s|cm0 p e h s ends]; cbn [to_op op_sg].
    - cbn [pp_valid pp_proposer]. intros _. cbn [prop_ok] in Hp. subst signer.
      destruct (K (p, mkBlk p k false) (or_introl eq_refl)) as [H1 H2].
      exists (mkBlk p k false). repeat split; assumption.
    - cbn [em_valid em_endorser em_proposer]. intro Hv. apply sig_valid_true in Hv. destruct Hv as [-> Hpp].
      destruct (K (en, h) (or_introl eq_refl)) as [H1 H2]. exists h. repeat split; assumption.
    - split; cbn [cm_valid cm_committer cm_proposer cm_endorsers].
      + intro Hv. apply sig_valid_true in Hv. destruct Hv as [-> Hpp].
        destruct (K (cm0, h) (or_introl eq_refl)) as [H1 H2]. exists h. repeat split; assumption.
      + intros i Hi. apply in_map_iff in Hi. destruct Hi as ([i' s'] & E & Hin). cbn [fst snd] in E.
        inversion E; subst i'. apply sig_valid_true in H1. destruct H1 as [-> Hpp].
        assert (Hs : In (i, h) (sigs_of (MCommit cm0 p e h s ends))).
        { cbn [sigs_of]. right. apply in_map_iff. exists (i, (i, h)). split; [reflexivity|exact Hin]. }
        destruct (K (i, h) Hs) as [H1 H2]. exists h. repeat split; assumption.
  Qed.

  Hypothesis HV : verified_intakeb P cfg = true.
  Hypothesis HD : no_doubleb P cfg = true.
  Hypothesis HE : empty_freeb P cfg = true.

  (** what a seal of an honest node rests on *)
  Lemma seal_backed a x :
    honestb P a = true -> n_sealed (node_of cfg a) = Some x ->
    b_empty x = false /\
    In (mkBlk (b_proposer x) (b_variant x) false) (all_signed P cfg) /\
    exists S, NoDup S /\ (quorum_size (Z.of_N (P_n P)) <= Z.of_nat (length S))%Z /\
              forall i, In i S -> In i (P_peers P) /\ Sgn i (b_proposer x).
  Proof.
    intros Ha Hx. pose proof (proj1 Hinv a Ha) as HL.
    destruct (li_sealed _ _ _ _ HL x Hx) as (ops' & isE' & ord & Hpre & Hnd & Hcd & signer & Hprop).
    set (p := b_proposer x) in *. set (k := b_variant x) in *.
    assert (Hops : forall o, In o ops' -> op_sg Sgn o).
    { intros o Ho. destruct (li_ops _ _ _ _ HL o (prefix_incl _ _ Hpre o Ho)) as (m & Hm & ->).
      apply (seen_op_sg a m Ha Hm). }
    assert (Hsg : st_sg Sgn (run_ops ops' cand_empty)) by (apply run_ops_sg; exact Hops).
    assert (HVa : counted_verified (P_peers P) ops').
    { unfold counted_verified. eapply forallb_prefix; [exact Hpre|]. apply (for_honest_spec _ a HV Ha). }
    assert (HDa : no_double_count ops').
    { unfold no_double_count. eapply forallb_prefix; [exact Hpre|]. apply (for_honest_spec _ a HD Ha). }
    assert (HEa : forallb op_nonemptyb ops' = true).
    { eapply forallb_prefix; [exact Hpre|]. apply (for_honest_spec _ a HE Ha). }
    assert (Hpp : Sgn p p /\ In (mkBlk p k false) (all_signed P cfg)).
    { destruct (li_seen _ _ _ _ HL _ Hprop) as [Hok Hsig]. cbn [prop_ok] in Hok. subst signer.
      destruct (known_sig a (p, mkBlk p k false) Ha (Hsig _ (or_introl eq_refl))) as [H1 H2].
      split; [|exact H1]. exists (mkBlk p k false). repeat split; assumption. }
    split; [|split].
    - eapply commit_done_ne; [apply run_ops_ne; exact HEa|exact Hcd].
    - apply Hpp.
    - destruct (commit_quorum_partial (P_peers P) (P_n P) (P_c P) isE' ops' ord p (b_empty x) (proj1 Hwf)
                  (conj HVa HDa) Hnd Hcd) as (S & HS1 & HS2 & HS3).
      exists S. repeat split; try assumption.
      + destruct (valid_signer_sg Sgn _ _ _ _ Hsg (HS3 i H)) as [Hin _]. exact Hin.
      + destruct (valid_signer_sg Sgn _ _ _ _ Hsg (HS3 i H)) as [_ [->|Hs]]; [apply Hpp|exact Hs].
  Qed.

  Hypothesis HU : single_votesb P cfg = true.
  Hypothesis HQ : no_equivocationb P cfg = true.

  Lemma single_vote_target a b1 b2 :
    honestb P a = true -> In b1 (signed_blocks (node_of cfg a)) -> In b2 (signed_blocks (node_of cfg a)) ->
    b_proposer b1 = b_proposer b2.
  Proof.
    intros Ha H1 H2. pose proof (for_honest_spec _ a HU Ha) as H. unfold single_voteb in H.
    unfold signed_blocks in H1, H2. apply in_map_iff in H1. apply in_map_iff in H2.
    destruct H1 as (e1 & <- & Hi1). destruct H2 as (e2 & <- & Hi2).
    rewrite forallb_forall in H. specialize (H e1 Hi1). rewrite forallb_forall in H. specialize (H e2 Hi2).
    unfold target_eqb in H. apply andb_true_iff in H. destruct H as [H _]. apply N.eqb_eq in H. exact H.
  Qed.

  Lemma no_equivocation_variant b1 b2 :
    In b1 (all_signed P cfg) -> In b2 (all_signed P cfg) -> b_proposer b1 = b_proposer b2 ->
    b_variant b1 = b_variant b2.
  Proof.
    intros H1 H2 Hp. unfold no_equivocationb, no_equiv_blocks in HQ. rewrite forallb_forall in HQ. specialize (HQ b1 H1).
    rewrite forallb_forall in HQ. specialize (HQ b2 H2). rewrite Hp, N.eqb_refl in HQ. cbn in HQ.
    apply N.eqb_eq in HQ. exact HQ.
  Qed.

  Lemma quorum_arith_nat n c : (3 * c + 1 <= n)%Z -> (0 <= c)%Z ->
    (Z.to_nat c + 1 + Z.to_nat n <= 2 * Z.to_nat (quorum_size n))%nat.
  Proof. unfold quorum_size. intros. lia. Qed.

  Theorem agreement_under_hyps : agreement P cfg.
  Proof.
    intros a b x y Ha Hb Hx Hy.
    destruct (seal_backed a x Ha Hx) as (Ex & Hbx & Sa & Hnda & Hqa & HSa).
    destruct (seal_backed b y Hb Hy) as (Ey & Hby & Sb & Hndb & Hqb & HSb).
    destruct Hwf as [[Hndp [Hlen [Hn Hc]]] Hbyz].
    assert (Hint : exists i, In i Sa /\ In i Sb /\ ~ In i (P_byz P)).
    { apply (quorum_intersect_honest N N.eq_dec (P_peers P) Sa Sb (P_byz P)
               (Z.to_nat (quorum_size (Z.of_N (P_n P)))) (N.to_nat (P_c P))); try assumption.
      - intros i Hi; apply (HSa i Hi).
      - intros i Hi; apply (HSb i Hi).
      - lia.
      - lia.
      - lia.
      - pose proof (quorum_arith_nat (Z.of_N (P_n P)) (Z.of_N (P_c P)) ltac:(lia) ltac:(lia)) as Hq.
        assert (El : length (P_peers P) = Z.to_nat (Z.of_N (P_n P))) by lia.
        rewrite El. replace (N.to_nat (P_c P)) with (Z.to_nat (Z.of_N (P_c P))) by lia. exact Hq. }
    destruct Hint as (i & Hia & Hib & Hnb).
    destruct (HSa i Hia) as [Hip (b1 & Hp1 & _ & Hs1)]. destruct (HSb i Hib) as [_ (b2 & Hp2 & _ & Hs2)].
    assert (Hhi : honestb P i = true).
    { unfold honestb. apply andb_true_iff. split; [apply memN_In; exact Hip|].
      apply negb_true_iff. destruct (memN i (P_byz P)) eqn:E; [apply memN_In in E; contradiction|reflexivity]. }
    assert (Hpp : b_proposer x = b_proposer y).
    { rewrite <- Hp1, <- Hp2. apply (single_vote_target i); auto. }
    assert (Hkk : b_variant x = b_variant y).
    { apply (no_equivocation_variant _ _ Hbx Hby). exact Hpp. }
    destruct x as [px kx ex], y as [py ky ey]; cbn [b_proposer b_variant b_empty] in *. congruence.
  Qed.
End Safety.

(** The partial safety theorem. *)
Lemma safety_partial_lemma : safety_statement hyp_allb.
Proof.
  intros P cfg Hwf Hr Hh. unfold hyp_allb in Hh.
  repeat (apply andb_true_iff in Hh; let H := fresh "H" in destruct Hh as [Hh H]).
  apply agreement_under_hyps; try assumption. apply ginv_reachable; exact Hr.
Qed.

(** * Refutations: explicit schedules on the faithful model (N = 4, C = 1; the participant
    configuration calcParticipantPeers yields for peers 0..3). Each violates exactly one of the
    five side conditions. The same schedules are replayed on real nodes by harness/drivers/c34. *)
Lemma run_reachable P es : forall cfg cfg', reachable P cfg -> run P cfg es = Some cfg' -> reachable P cfg'.
Proof.
  induction es as [|e r IH]; intros cfg cfg' Hr H; cbn [run] in H; [inversion H; subst; exact Hr|].
  destruct (step P cfg e) as [c1|] eqn:Es; [|discriminate].
  eapply IH; [eapply reach_step; eassumption|exact H].
Qed.

Definition disagreeb (cfg : config) (a b : N) : bool :=
  match n_sealed (node_of cfg a), n_sealed (node_of cfg b) with
  | Some x, Some y => negb (blk_eqb x y)
  | _, _ => false
  end.

Definition witnessb (extra : params -> config -> bool) (P : params) (es : list event) (a b : N) : bool :=
  match run P cfg0 es with
  | Some cfg => extra P cfg && honestb P a && honestb P b && disagreeb cfg a b
  | None => false
  end.

Lemma witness_refutes extra P es a b :
  wf_params P -> witnessb extra P es a b = true -> ~ safety_statement extra.
Proof.
  intros Hwf Hw Hs. unfold witnessb in Hw. destruct (run P cfg0 es) as [cfg|] eqn:Er; [|discriminate].
  apply andb_true_iff in Hw. destruct Hw as [Hw Hd]. apply andb_true_iff in Hw. destruct Hw as [Hw Hb].
  apply andb_true_iff in Hw. destruct Hw as [Hx Ha].
  assert (Hr : reachable P cfg) by (eapply run_reachable; [apply reach_init|exact Er]).
  specialize (Hs P cfg Hwf Hr Hx). unfold disagreeb in Hd.
  destruct (n_sealed (node_of cfg a)) as [x|] eqn:Ea; [|discriminate].
  destruct (n_sealed (node_of cfg b)) as [y|] eqn:Eb; [|discriminate].
  rewrite (Hs a b x y Ha Hb Ea Eb), blk_eqb_refl in Hd. discriminate.
Qed.

Definition P4 (byz : list N) : params := mkParams 4 1 [0; 1; 2; 3] byz [0; 1] [2; 1; 3] [3; 1; 2].

Lemma wf_P4 byz : (length byz <= 1)%nat -> wf_params (P4 byz).
Proof.
  intro H. unfold wf_params, wf_config, P4, U32. cbn [P_n P_c P_peers P_byz length].
  repeat split; try lia.
  repeat constructor; cbn; intuition discriminate.
Qed.

Definition o4 : list N := [0; 1; 2; 3].
Definition X0 := mkBlk 0 0 false.
Definition X0e := mkBlk 0 0 true.
Definition X1 := mkBlk 1 0 false.
Definition X3 := mkBlk 3 0 false.
Definition Y0 := mkBlk 0 1 false.
Definition garb (h : blk) : sg := (1000, h).

(** R1 (F10): peers 0 and 1 both propose; the faulty peer 3 sends each of them one commit message
    whose EndorsersSig entries verify under no key. 0 seals its block, 1 seals its own. *)
Definition sched_unverified : list event :=
  [ EvLocal 0 LPropose; EvLocal 0 (LProc o4); EvLocal 1 LPropose; EvLocal 1 (LProc o4);
    EvByz (mkPkt 3 (MCommit 3 0 false X0 (3, X0) [(1, garb X0); (2, garb X0)]));
    EvByz (mkPkt 3 (MCommit 3 1 false X1 (3, X1) [(0, garb X1); (2, garb X1)]));
    EvLocal 0 (LNet 3 (MCommit 3 0 false X0 (3, X0) [(1, garb X0); (2, garb X0)]) false);
    EvLocal 0 (LProc o4); EvLocal 0 LAct;
    EvLocal 1 (LNet 3 (MCommit 3 1 false X1 (3, X1) [(0, garb X1); (2, garb X1)]) false);
    EvLocal 1 (LProc o4); EvLocal 1 LAct ].

(** R2: every signature verifies; the faulty peer 3 proposes and commits its own block and is
    counted twice. 1 seals the leader's block, 2 seals the block of 3. *)
Definition sched_double : list event :=
  [ EvLocal 0 LPropose; EvLocal 0 (LProc o4);
    EvLocal 1 (LNet 0 (MProposal 0 0 0) false); EvLocal 1 (LProc o4); EvLocal 1 (LProc o4); EvLocal 1 (LProc o4);
    EvByz (mkPkt 3 (MCommit 3 0 false X0 (3, X0) []));
    EvLocal 1 (LNet 3 (MCommit 3 0 false X0 (3, X0) []) false); EvLocal 1 (LProc o4); EvLocal 1 LAct;
    EvByz (mkPkt 3 (MProposal 3 0 3)); EvLocal 2 (LNet 3 (MProposal 3 0 3) false); EvLocal 2 (LProc o4);
    EvLocal 2 (LTimer TPropose o4); EvLocal 2 LAct; EvLocal 2 (LProc o4); EvLocal 2 (LProc o4);
    EvByz (mkPkt 3 (MCommit 3 3 false X3 (3, X3) []));
    EvLocal 2 (LNet 3 (MCommit 3 3 false X3 (3, X3) []) false); EvLocal 2 (LProc o4); EvLocal 2 LAct ].

(** R3: the faulty leader 0 signs two proposals; the tallies are keyed by the proposer's index
    and the hash in an endorse or commit message is never compared with the local proposal. *)
Definition sched_equivocation : list event :=
  [ EvByz (mkPkt 0 (MProposal 0 0 0)); EvByz (mkPkt 0 (MProposal 0 1 0));
    EvLocal 1 (LNet 0 (MProposal 0 0 0) false); EvLocal 1 (LProc o4); EvLocal 1 (LProc o4); EvLocal 1 (LProc o4);
    EvLocal 2 (LNet 0 (MProposal 0 1 0) false); EvLocal 2 (LProc o4); EvLocal 2 (LProc o4); EvLocal 2 (LProc o4);
    EvLocal 1 (LNet 2 (MCommit 2 0 false Y0 (2, Y0) [(2, (2, Y0))]) false); EvLocal 1 (LProc o4); EvLocal 1 LAct;
    EvLocal 2 (LNet 1 (MCommit 1 0 false X0 (1, X0) [(1, (1, X0))]) false); EvLocal 2 (LProc o4); EvLocal 2 LAct ].

(** R4: NO faulty peer. The leader 0 and the second proposer 1 both propose (1's back-off fired
    before 0's proposal arrived). 3 endorses and commits X1 after its proposal timeout; 2 commits X1
    on 3's endorsement and then endorses the leader's X0; 1 endorses and commits X0. 0 seals X0, 2
    seals X1. *)
Definition sched_cross_vote : list event :=
  [ EvLocal 0 LPropose; EvLocal 0 (LProc o4); EvLocal 1 LPropose; EvLocal 1 (LProc o4);
    EvLocal 3 (LNet 1 (MProposal 1 0 1) false); EvLocal 3 (LProc o4); EvLocal 3 (LTimer TPropose o4); EvLocal 3 LAct;
    EvLocal 3 (LProc o4); EvLocal 3 (LProc o4);
    EvLocal 2 (LNet 1 (MProposal 1 0 1) false); EvLocal 2 (LNet 3 (MEndorse 3 1 false X1 (3, X1)) false);
    EvLocal 2 (LNet 0 (MProposal 0 0 0) false);
    EvLocal 2 (LProc o4); EvLocal 2 (LProc o4); EvLocal 2 (LProc o4); EvLocal 2 (LProc o4); EvLocal 2 (LProc o4);
    EvLocal 2 LAct;
    EvLocal 1 (LNet 0 (MProposal 0 0 0) false); EvLocal 1 (LProc o4);
    EvLocal 1 (LNet 2 (MEndorse 2 0 false X0 (2, X0)) false); EvLocal 1 (LProc o4);
    EvLocal 0 (LNet 1 (MCommit 1 0 false X0 (1, X0) [(1, (1, X0)); (2, (2, X0))]) false); EvLocal 0 (LProc o4); EvLocal 0 LAct ].

(** R5: the "for empty" verdict of getCommitConsensus is a count over the commit messages seen so
    far (of any proposer), not a quorum: 0 seals the leader's block, 1 seals its empty block. *)
Definition o5 : list N := [3; 2; 0; 1].
Definition sched_empty_flag : list event :=
  [ EvLocal 0 LPropose; EvLocal 0 (LProc o4);
    EvLocal 2 (LNet 0 (MProposal 0 0 0) false); EvLocal 2 (LProc o4); EvLocal 2 (LTimer TEndorse o4);
    EvLocal 2 (LProc o4); EvLocal 2 (LProc o4); EvLocal 2 (LProc o4);
    EvByz (mkPkt 3 (MEndorse 3 0 true X0e (3, X0e))); EvByz (mkPkt 3 (MCommit 3 0 true X0e (3, X0e) []));
    EvByz (mkPkt 3 (MCommit 3 0 false X0 (3, X0) []));
    EvLocal 1 (LNet 0 (MProposal 0 0 0) false); EvLocal 1 (LNet 3 (MEndorse 3 0 true X0e (3, X0e)) false);
    EvLocal 1 (LNet 3 (MCommit 3 0 true X0e (3, X0e) []) false); EvLocal 1 (LNet 2 (MEndorse 2 0 true X0e (2, X0e)) false);
    EvLocal 1 (LProc o5); EvLocal 1 (LProc o5); EvLocal 1 (LProc o5); EvLocal 1 (LProc o5);
    EvLocal 1 (LProc o5); EvLocal 1 (LProc o5); EvLocal 1 LAct;
    EvLocal 0 (LNet 2 (MCommit 2 0 false X0 (2, X0) [(2, (2, X0))]) false); EvLocal 0 (LNet 3 (MCommit 3 0 false X0 (3, X0) []) false);
    EvLocal 0 (LProc o4); EvLocal 0 (LProc o4); EvLocal 0 LAct ].

Definition hyp_but_V P cfg := no_doubleb P cfg && empty_freeb P cfg && single_votesb P cfg && no_equivocationb P cfg.
Definition hyp_but_D P cfg := verified_intakeb P cfg && empty_freeb P cfg && single_votesb P cfg && no_equivocationb P cfg.
Definition hyp_but_Q P cfg := verified_intakeb P cfg && no_doubleb P cfg && empty_freeb P cfg && single_votesb P cfg.
Definition hyp_but_E P cfg := verified_intakeb P cfg && no_doubleb P cfg && single_votesb P cfg && no_equivocationb P cfg.
Definition no_faults (P : params) : bool := match P_byz P with [] => true | _ => false end.
Definition hyp_but_U P cfg :=
  no_faults P && verified_intakeb P cfg && no_doubleb P cfg && empty_freeb P cfg && no_equivocationb P cfg.

Lemma w_unverified : witnessb hyp_but_V (P4 [3]) sched_unverified 0 1 = true.
Proof. vm_compute. reflexivity. Qed.
Lemma w_unverified_not_V :
  match run (P4 [3]) cfg0 sched_unverified with Some cfg => verified_intakeb (P4 [3]) cfg | None => true end = false.
Proof. vm_compute. reflexivity. Qed.
Lemma w_double : witnessb hyp_but_D (P4 [3]) sched_double 1 2 = true.
Proof. vm_compute. reflexivity. Qed.
Lemma w_equivocation : witnessb hyp_but_Q (P4 [0]) sched_equivocation 1 2 = true.
Proof. vm_compute. reflexivity. Qed.
Lemma w_cross_vote : witnessb hyp_but_U (P4 []) sched_cross_vote 0 2 = true.
Proof. vm_compute. reflexivity. Qed.
Lemma w_empty_flag : witnessb hyp_but_E (P4 [3]) sched_empty_flag 0 1 = true.
Proof. vm_compute. reflexivity. Qed.

Lemma safety_unverified_refuted_lemma : ~ safety_statement hyp_but_V.
Proof. apply (witness_refutes _ (P4 [3]) sched_unverified 0 1); [apply wf_P4; cbn; lia|exact w_unverified]. Qed.
Lemma safety_double_count_refuted_lemma : ~ safety_statement hyp_but_D.
Proof. apply (witness_refutes _ (P4 [3]) sched_double 1 2); [apply wf_P4; cbn; lia|exact w_double]. Qed.
Lemma safety_equivocation_refuted_lemma : ~ safety_statement hyp_but_Q.
Proof. apply (witness_refutes _ (P4 [0]) sched_equivocation 1 2); [apply wf_P4; cbn; lia|exact w_equivocation]. Qed.
Lemma safety_cross_vote_refuted_lemma : ~ safety_statement hyp_but_U.
Proof. apply (witness_refutes _ (P4 []) sched_cross_vote 0 2); [apply wf_P4; cbn; lia|exact w_cross_vote]. Qed.
Lemma safety_empty_flag_refuted_lemma : ~ safety_statement hyp_but_E.
Proof. apply (witness_refutes _ (P4 [3]) sched_empty_flag 0 1); [apply wf_P4; cbn; lia|exact w_empty_flag]. Qed.

Lemma safety_refuted_lemma : ~ safety.
Proof.
  intro H. apply safety_unverified_refuted_lemma. intros P cfg Hwf Hr _. exact (H P cfg Hwf Hr eq_refl).
Qed.

(** * Local rules: one commitment and one endorsement per flag per node and height; a seal is final *)
Definition jf (nd : node) := (n_committed nd, n_endorsed nd, n_endorsed_empty nd, n_signed nd).

Definition J (nd : node) : Prop :=
  (n_committed nd = (None, None) -> commitments nd = []) /\ (length (commitments nd) <= 1)%nat /\
  one_commit_mark nd = true /\
  (n_endorsed nd = None -> endorsements false nd = []) /\ (length (endorsements false nd) <= 1)%nat /\
  (n_endorsed_empty nd = None -> endorsements true nd = []) /\ (length (endorsements true nd) <= 1)%nat.

Lemma J_ext nd nd' : jf nd' = jf nd -> J nd -> J nd'.
Proof.
  unfold jf, J, commitments, endorsements. intro E. inversion E as [[E1 E2 E3 E4]].
  unfold one_commit_mark. rewrite E1, E2, E3, E4. tauto.
Qed.

Lemma J_node0 : J node0.
Proof. unfold J; cbn. repeat split; auto. Qed.

Section LocalRules.
  Variable P : params.
  Variable self : N.

  Lemma filter_snoc {A} (f : A -> bool) l x : filter f (l ++ [x]) = filter f l ++ (if f x then [x] else []).
  Proof. rewrite filter_app. cbn [filter]. destruct (f x); reflexivity. Qed.

  Lemma J_emit_endorse nd1 p k (fe : bool) m bc :
    J nd1 -> (if fe then n_endorsed_empty nd1 else n_endorsed nd1) = Some (p, k) ->
    endorsements fe nd1 = [] ->
    J (emit nd1 SEndorse (mkBlk p k fe) m bc).
  Proof.
    intros (c1 & c2 & om & e1 & e2 & f1 & f2) Hm Hz.
    assert (G : J (upd_signed nd1 (n_signed nd1 ++ [(SEndorse, mkBlk p k fe)]))).
    { unfold J, commitments, endorsements, one_commit_mark in *. cbn [upd_signed n_committed n_endorsed n_endorsed_empty n_signed].
      rewrite !filter_snoc. cbn [fst snd b_empty]. rewrite !app_nil_r.
      destruct fe; cbn [eqb] in *.
      - rewrite Hz. rewrite app_nil_r. repeat split; try assumption; try (rewrite Hm; discriminate).
        cbn. auto.
      - rewrite Hz. rewrite app_nil_r. repeat split; try assumption; try (rewrite Hm; discriminate).
        cbn. auto. }
    eapply J_ext; [|exact G]. unfold emit. destruct bc; reflexivity.
  Qed.

  Lemma J_endorse_block nd p k fe : J nd -> J (fst (endorse_block P self nd p k fe)).
  Proof.
    intro HJ. unfold endorse_block. destruct (p =? self); [exact HJ|].
    destruct (_ || _) eqn:Eg; [exact HJ|].
    set (fe' := if negb fe && endorse_failed (pool nd) (P_c P) then true else fe).
    destruct (set_proposal_endorsed nd p k fe') as [nd1|] eqn:E; [|exact HJ]. cbn [fst].
    apply orb_false_iff in Eg. destruct Eg as [Eg1 Eg2].
    assert (Hnone : if fe' then n_endorsed_empty nd = None else n_endorsed nd = None /\ n_endorsed_empty nd = None).
    { unfold fe'. destruct fe; cbn [negb andb] in *.
      - unfold endorsed_for_empty in Eg2. destruct (n_endorsed_empty nd); [discriminate|reflexivity].
      - unfold endorsed_for_block in Eg1. apply orb_false_iff in Eg1. destruct Eg1 as [A B].
        destruct (n_endorsed nd); [discriminate|]. destruct (n_endorsed_empty nd); [discriminate|].
        destruct (endorse_failed _ _); [reflexivity|split; reflexivity]. }
    unfold set_proposal_endorsed in E. destruct (negb (has_cand nd)); [discriminate|].
    destruct HJ as (c1 & c2 & om & e1 & e2 & f1 & f2).
    destruct fe'; cbn [negb] in E.
    - rewrite Hnone in E. inversion E; subst nd1.
      apply J_emit_endorse; [|reflexivity|apply f1; exact Hnone].
      unfold J, commitments, endorsements, one_commit_mark in *. cbn [upd_endorsed_empty n_committed n_endorsed n_endorsed_empty n_signed].
      repeat split; try assumption. discriminate.
    - destruct Hnone as [Hn1 Hn2]. rewrite Hn1 in E. inversion E; subst nd1.
      apply J_emit_endorse; [|reflexivity|apply e1; exact Hn1].
      unfold J, commitments, endorsements, one_commit_mark in *. cbn [upd_endorsed n_committed n_endorsed n_endorsed_empty n_signed].
      repeat split; try assumption. discriminate.
  Qed.

  (** the rest of commitBlock, whatever its caller checked before: setProposalCommitted's own
      first test keeps "one commit mark, one commitment" *)
  Lemma J_commit_tail nd p k fe : J nd -> J (fst (commit_tail P self nd p k fe)).
  Proof.
    intro HJ. unfold commit_tail.
    destruct (set_proposal_committed nd p k fe) as [nd1|] eqn:E; [|exact HJ]. cbn [fst].
    apply spc_some in E. destruct E as [En ->].
    destruct HJ as (c1 & c2 & om & e1 & e2 & f1 & f2).
    set (mk := if fe then (None, Some (p, k)) else (Some (p, k), None)).
    assert (G : J (upd_signed (upd_committed nd mk) (n_signed (upd_committed nd mk) ++ [(SCommit, mkBlk p k fe)]))).
    { unfold J, commitments, endorsements, one_commit_mark in *.
      cbn [upd_signed upd_committed n_committed n_endorsed n_endorsed_empty n_signed].
      rewrite !filter_snoc. cbn [fst snd]. rewrite !app_nil_r. rewrite (c1 En).
      repeat split; try assumption; try (unfold mk; destruct fe; discriminate); try (unfold mk; destruct fe; reflexivity);
        try (cbn; auto). }
    eapply J_ext; [|exact G]. unfold emit. destruct (fe || isC P self); reflexivity.
  Qed.

  Lemma J_commit_block nd p k fe : J nd -> J (fst (commit_block P self nd p k fe)).
  Proof.
    intro HJ. unfold commit_block. destruct (p =? self); [exact HJ|].
    destruct (committed_for_block nd); [exact HJ|apply J_commit_tail; exact HJ].
  Qed.

  Lemma J_commit_late nd p fe : J nd -> J (fst (commit_late P self nd p fe)).
  Proof.
    intro HJ. unfold commit_late. destruct (p =? self); [exact HJ|].
    destruct (find_proposal nd p); [apply J_commit_tail; exact HJ|exact HJ].
  Qed.

  Lemma J_process_msg nd ord m : J nd -> J (fst (process_msg P self ord nd m)).
  Proof.
    intro HJ. unfold process_msg. destruct (is_some (n_sealed nd)); [exact HJ|].
    set (nd1 := upd_ops nd (n_ops nd ++ [to_op m])).
    assert (H1 : J nd1) by (eapply J_ext; [|exact HJ]; reflexivity).
    destruct m as [p k signer|en p e h s|cm0 p e h s ends].
    - destruct (snd (receive _ _)); try exact H1;
        (destruct (is_leader P p); [|exact H1]; destruct (isE P self); [|exact H1]; apply J_endorse_block; exact H1).
    - destruct (committed_for_block nd1); [exact H1|]. destruct (isE P en); [|exact H1].
      destruct (endorse_done ord (pool nd1) (P_c P)) as [[pr fe] [|]]; [|exact H1].
      destruct (find_proposal nd1 pr) as [k'|]; [|exact H1].
      destruct (isC P self); [apply J_commit_block; exact H1|exact H1].
    - destruct (snd (receive _ _)); try exact H1;
        (destruct (commit_done (isE P) ord (pool nd1) (P_c P) (P_n P)) as [[pr fe] [|]]; [|exact H1];
         set (nd2 := upd_commit_done nd1 true);
         assert (H2 : J nd2) by (eapply J_ext; [|exact H1]; reflexivity);
         destruct (find_proposal nd2 pr) as [k'|]; [|exact H2];
         destruct (isC P self);
         [ pose proof (J_commit_block nd2 pr k' fe H2) as H3;
           destruct (commit_block P self nd2 pr k' fe) as [nd3 outs]; cbn [fst] in *;
           eapply J_ext; [|exact H3]; reflexivity
         | cbn [fst]; eapply J_ext; [|exact H2]; reflexivity ]).
  Qed.

  Lemma J_on_timer nd ord t : J nd -> J (fst (on_timer P self ord nd t)).
  Proof.
    intro HJ. unfold on_timer. destruct (is_some (n_sealed nd)); [exact HJ|]. destruct t.
    - destruct (endorsed_for_block nd); [exact HJ|]. destruct (highest_rank _ _ _) as [q|]; [|exact HJ].
      destruct (is_leader P (pp_proposer q)); [exact HJ|]. cbn [fst]. eapply J_ext; [|exact HJ]; reflexivity.
    - destruct (committed_for_block nd); [exact HJ|].
      destruct (endorse_done ord (pool nd) (P_c P)) as [[pr fe] [|]].
      + destruct (find_proposal nd pr); [apply J_commit_block; exact HJ|exact HJ].
      + destruct (endorsed_for_empty nd); [exact HJ|].
        destruct (highest_rank _ _ _) as [q|]; [apply J_endorse_block; exact HJ|exact HJ].
    - destruct (committed_for_block nd); [exact HJ|].
      destruct (endorse_done ord (pool nd) (P_c P)) as [[pr fe] [|]]; [|exact HJ].
      destruct (find_proposal nd pr); [apply J_commit_block; exact HJ|exact HJ].
    - destruct (n_commit_done nd); [exact HJ|].
      destruct (commit_done (isE P) ord (pool nd) (P_c P) (P_n P)) as [[pr fe] [|]]; [|exact HJ].
      destruct (find_proposal _ pr); cbn [fst]; (eapply J_ext; [|exact HJ]; reflexivity).
  Qed.

  Lemma J_local_step nd ev : J nd -> J (fst (local_step P self nd ev)).
  Proof.
    intro HJ. destruct ev as [from m fresh|ord| |t ord| |p e]; cbn [local_step]; [| | | | |apply J_commit_late; exact HJ].
    - cbn [fst]. unfold deliver. destruct (is_some (n_sealed nd)); [exact HJ|].
      destruct (negb _); [exact HJ|]. destruct (_ && _); [exact HJ|]. eapply J_ext; [|exact HJ]; reflexivity.
    - destruct (n_q nd) as [|m r]; [exact HJ|]. apply J_process_msg. eapply J_ext; [|exact HJ]; reflexivity.
    - destruct (n_actions nd) as [|a r]; [exact HJ|].
      assert (H0 : J (upd_actions nd r)) by (eapply J_ext; [|exact HJ]; reflexivity).
      destruct a as [p k e|p k e]; cbn [do_action].
      + destruct (is_some (n_sealed (upd_actions nd r))); [exact H0|].
        unfold set_block_sealed. destruct (n_sealed (upd_actions nd r)) as [b|].
        * destruct (b_proposer b =? p); exact H0.
        * cbn [fst]. eapply J_ext; [|exact H0]; reflexivity.
      + destruct (is_some (n_sealed (upd_actions nd r))); [exact H0|]. apply J_endorse_block; exact H0.
    - apply J_on_timer; exact HJ.
    - unfold propose. destruct (is_some (n_sealed nd)); [exact HJ|]. destruct (existsb _ _); [exact HJ|].
      cbn [fst]. destruct HJ as (c1 & c2 & om & e1 & e2 & f1 & f2).
      unfold J, commitments, endorsements, one_commit_mark in *.
      cbn [upd_seen upd_signed upd_q upd_msgs n_committed n_endorsed n_endorsed_empty n_signed].
      rewrite !filter_app. cbn [filter fst]. rewrite !app_nil_r. tauto.
  Qed.

  (** a seal is final for every local event *)
  Lemma sealed_final nd ev b : n_sealed nd = Some b -> n_sealed (fst (local_step P self nd ev)) = Some b.
  Proof.
    intro Hs. destruct ev as [from m fresh|ord| |t ord| |p e]; cbn [local_step].
    6:{ unfold commit_late. destruct (p =? self); [exact Hs|]. destruct (find_proposal nd p) as [k|]; [|exact Hs].
        unfold commit_tail. destruct (set_proposal_committed nd p k e) as [nd1|] eqn:E; [|exact Hs].
        apply spc_some in E. destruct E as [_ ->]. cbn [fst]. unfold emit.
        destruct (e || isC P self); exact Hs. }
    - cbn [fst]. unfold deliver. rewrite Hs. cbn [is_some]. exact Hs.
    - destruct (n_q nd) as [|m r]; [exact Hs|]. unfold process_msg. cbn [upd_q n_sealed]. rewrite Hs.
      cbn [is_some fst upd_q n_sealed]. exact Hs.
    - destruct (n_actions nd) as [|a r]; [exact Hs|].
      destruct a; cbn [do_action upd_actions n_sealed]; rewrite Hs; cbn [is_some fst upd_actions n_sealed]; exact Hs.
    - unfold on_timer. rewrite Hs. cbn [is_some fst]. exact Hs.
    - unfold propose. rewrite Hs. cbn [is_some fst]. exact Hs.
  Qed.
End LocalRules.

Lemma J_reachable P cfg : reachable P cfg -> forall a, J (node_of cfg a).
Proof.
  induction 1 as [|cfg e cfg' _ IH Hs]; intro a; [apply J_node0|].
  destruct e as [b ev|pk]; cbn [step] in Hs.
  - destruct (honestb P b && lev_ok (c_net cfg) ev); [|discriminate].
    destruct (local_step P b (node_of cfg b) ev) as [nd' outs] eqn:El. inversion Hs; subst cfg'.
    destruct (N.eq_dec a b) as [->|Hne].
    + rewrite node_of_same. pose proof (J_local_step P b (node_of cfg b) ev (IH b)) as H. rewrite El in H. exact H.
    + rewrite node_of_other by exact Hne. apply IH.
  - destruct (byz_ok P (c_net cfg) pk); [|discriminate]. inversion Hs; subst cfg'. apply IH.
Qed.

Lemma sealed_final_step P cfg e cfg' a b :
  step P cfg e = Some cfg' -> n_sealed (node_of cfg a) = Some b -> n_sealed (node_of cfg' a) = Some b.
Proof.
  intros Hs Hb. destruct e as [c ev|pk]; cbn [step] in Hs.
  - destruct (honestb P c && lev_ok (c_net cfg) ev); [|discriminate].
    destruct (local_step P c (node_of cfg c) ev) as [nd' outs] eqn:El. inversion Hs; subst cfg'.
    destruct (N.eq_dec a c) as [->|Hne].
    + rewrite node_of_same. pose proof (sealed_final P c (node_of cfg c) ev b Hb) as H. rewrite El in H. exact H.
    + rewrite node_of_other by exact Hne. exact Hb.
  - destruct (byz_ok P (c_net cfg) pk); [|discriminate]. inversion Hs; subst cfg'. exact Hb.
Qed.

(** the pool side: one non-empty endorsement per (endorser, proposer); an empty one is sticky *)
Lemma pool_one_endorsement ops e l (q : N) :
  aget e (c_esigs (run_ops ops cand_empty)) = Some l ->
  (length (filter (fun s => negb (es_empty s) && (es_proposer s =? q)%N) l) <= 1)%nat.
Proof. intro H. exact (run_ops_shape ops e l H q). Qed.

Lemma empty_endorsement_sticky e s es l :
  aget e es = Some l -> existsb es_empty l = true -> add_endorsement e s false es = es.
Proof. intros H1 H2. unfold add_endorsement. rewrite H1, H2. reflexivity. Qed.

(** * A clean round (non-vacuity of the partial theorem): N = 4, nobody faulty, the leader's
    proposal is endorsed and committed by 1 and 2, both seal it, all five side conditions hold. *)
Definition sched_clean : list event :=
  [ EvLocal 0 LPropose; EvLocal 0 (LProc o4);
    EvLocal 1 (LNet 0 (MProposal 0 0 0) false); EvLocal 1 (LProc o4); EvLocal 1 (LProc o4); EvLocal 1 (LProc o4);
    EvLocal 2 (LNet 0 (MProposal 0 0 0) false); EvLocal 2 (LProc o4); EvLocal 2 (LProc o4); EvLocal 2 (LProc o4);
    EvLocal 1 (LNet 2 (MCommit 2 0 false X0 (2, X0) [(2, (2, X0))]) false); EvLocal 1 (LProc o4); EvLocal 1 LAct;
    EvLocal 2 (LNet 1 (MCommit 1 0 false X0 (1, X0) [(1, (1, X0))]) false); EvLocal 2 (LProc o4); EvLocal 2 LAct ].

Definition cfg_clean : config := match run (P4 []) cfg0 sched_clean with Some c => c | None => cfg0 end.

Lemma clean_round :
  run (P4 []) cfg0 sched_clean = Some cfg_clean /\ hyp_allb (P4 []) cfg_clean = true /\
  n_sealed (node_of cfg_clean 1) = Some X0 /\ n_sealed (node_of cfg_clean 2) = Some X0.
Proof. vm_compute. repeat split; reflexivity. Qed.

(** * The commit mark: the first commit of a height wins, atomically, in setProposalCommitted *)
Lemma guard_inventory :
  set_committed_cross_kind_guard = true /\ set_committed_takes_write_lock = true /\
  commit_block_prechecks_committed = true /\ commit_block_tail_as_hooked = true.
Proof. repeat split; reflexivity. Qed.

Lemma first_commit_wins nd p k e : committed_for_block nd = true -> set_proposal_committed nd p k e = None.
Proof.
  unfold committed_for_block, set_proposal_committed. destruct (n_committed nd) as [cb ce]. cbn [fst snd].
  intro H. destruct (negb (has_cand nd)); [reflexivity|].
  assert (Hg : set_committed_cross_kind_guard = true) by reflexivity. rewrite Hg, H. reflexivity.
Qed.

Lemma commit_mark_set nd p k e nd' :
  set_proposal_committed nd p k e = Some nd' ->
  n_committed nd = (None, None) /\ n_committed nd' = (if e then (None, Some (p, k)) else (Some (p, k), None)).
Proof. intro H. apply spc_some in H. destruct H as [H1 ->]. split; [exact H1|reflexivity]. Qed.

Lemma spe_keeps_commit nd p k e nd' : set_proposal_endorsed nd p k e = Some nd' -> n_committed nd' = n_committed nd.
Proof. intro H. destruct (spe_some _ _ _ _ _ H) as [-> | [-> | ->]]; reflexivity. Qed.

Lemma apply_mark_keeps nd o :
  committed_for_block nd = true -> n_committed (fst (apply_mark nd o)) = n_committed nd.
Proof.
  intro H. destruct o as [p k|p k e|p k e]; cbn [apply_mark].
  - reflexivity.
  - destruct (set_proposal_endorsed nd p k e) eqn:E; [|reflexivity]. cbn [fst]. eapply spe_keeps_commit; exact E.
  - rewrite (first_commit_wins nd p k e H). reflexivity.
Qed.

Lemma apply_mark_one nd o : one_commit_mark nd = true -> one_commit_mark (fst (apply_mark nd o)) = true.
Proof.
  intro H. destruct o as [p k|p k e|p k e]; cbn [apply_mark].
  - exact H.
  - destruct (set_proposal_endorsed nd p k e) eqn:E; [|exact H]. cbn [fst]. unfold one_commit_mark.
    rewrite (spe_keeps_commit _ _ _ _ _ E). exact H.
  - destruct (set_proposal_committed nd p k e) eqn:E; [|exact H]. cbn [fst].
    apply commit_mark_set in E. destruct E as [_ E]. unfold one_commit_mark. rewrite E. destruct e; reflexivity.
Qed.

Lemma run_marks_one ops : forall nd, one_commit_mark nd = true -> one_commit_mark (fst (run_marks nd ops)) = true.
Proof.
  induction ops as [|o r IH]; intros nd H; cbn [run_marks]; [exact H|].
  destruct (apply_mark nd o) as [nd1 ok] eqn:E1. pose proof (apply_mark_one nd o H) as H1. rewrite E1 in H1. cbn [fst] in H1.
  specialize (IH nd1 H1). destruct (run_marks nd1 r) as [nd2 oks]. exact IH.
Qed.

Lemma one_mark_reachable P cfg a : reachable P cfg -> one_commit_mark (node_of cfg a) = true.
Proof. intro H. exact (proj1 (proj2 (proj2 (J_reachable P cfg H a)))). Qed.
