(** C30, float part: the rank expression of GenesisChainConfig on IEEE binary64.

    [rank_float] is the term the harness translated from the Go source (Gen/ChainConfigGen.v), over
    Coq primitive floats. Through Flocq (IEEE754.PrimFloat, BinarySingleNaN) each primitive
    operation is the correctly rounded (nearest-even) real operation as long as no overflow occurs;
    on the operand ranges of the code (uint64 stakes and sum, uint32 scale and K) nothing
    overflows or underflows, so the computed value is [rankR] below, a composition of monotone
    roundings. From that: the uint64 rank is defined, >= 1, monotone in the stake, and < 2^64.

    Axioms used (all from the Coq standard library): the primitive-float specification axioms of
    Coq.Floats.FloatAxioms (mul_spec, div_spec, Prim2SF_valid, SF2Prim_Prim2SF, Prim2SF_SF2Prim, ...)
    and the axioms of the classical real numbers (Coq.Reals) that Flocq is built on. *)
From Coq Require Import ZArith NArith Reals Floats SpecFloat Lia Lra Bool.
From Flocq Require Import Core BinarySingleNaN PrimFloat Relative.
From Ont Require Import Lib.F64 Gen.ChainConfigGen.
Local Open Scope R_scope.

Notation fexp64 := (SpecFloat.fexp prec emax).
Definition rnd (x : R) : R := round radix2 fexp64 ZnearestE x.
Definition repr (f : PrimFloat.float) (r : R) : Prop :=
  is_finite (Prim2B f) = true /\ B2R (Prim2B f) = r.

Local Instance fexp64_valid : Valid_exp fexp64 := fexp_correct prec emax Hprec.

Lemma rnd_le x y : x <= y -> rnd x <= rnd y.
Proof. apply round_le; auto with typeclass_instances. Qed.

Lemma rnd_bpow e : (-1074 <= e)%Z -> rnd (bpow radix2 e) = bpow radix2 e.
Proof.
  intro He. apply round_generic; auto with typeclass_instances.
  exact (@generic_format_FLT_bpow radix2 (-1074) 53 Hprec e He).
Qed.

Lemma rnd_between a b x : (-1074 <= a)%Z -> (-1074 <= b)%Z ->
  bpow radix2 a <= x <= bpow radix2 b -> bpow radix2 a <= rnd x <= bpow radix2 b.
Proof.
  intros Ha Hb [H1 H2]. split.
  - rewrite <- (rnd_bpow a Ha). now apply rnd_le.
  - rewrite <- (rnd_bpow b Hb). now apply rnd_le.
Qed.

Lemma lt_emax x b : (b < 1024)%Z -> 0 <= x <= bpow radix2 b -> Rabs x < bpow radix2 emax.
Proof.
  intros Hb [H0 H1]. rewrite Rabs_pos_eq by exact H0.
  apply Rle_lt_trans with (1 := H1). apply bpow_lt. exact Hb.
Qed.

Lemma repr_of_N n : (n <= 2 ^ 64)%N -> repr (f64_of_N n) (rnd (IZR (Z.of_N n))).
Proof.
  intro Hn. unfold repr, f64_of_N.
  rewrite binary_normalize_equiv.
  change (SF2Prim (B2SF ?b)) with (B2Prim b). rewrite Prim2B_B2Prim.
  pose proof (binary_normalize_correct prec emax Hprec Hmax mode_NE (Z.of_N n) 0 false) as H.
  cbv zeta in H.
  assert (HF : F2R (Float radix2 (Z.of_N n) 0) = IZR (Z.of_N n)).
  { unfold F2R; simpl. ring. }
  rewrite HF in H.
  assert (Hb : 0 <= rnd (IZR (Z.of_N n)) <= bpow radix2 64).
  { split.
    - rewrite <- (round_0 radix2 fexp64 ZnearestE). apply rnd_le. apply IZR_le. lia.
    - rewrite <- (rnd_bpow 64) by lia. apply rnd_le.
      change (bpow radix2 64) with (IZR (2 ^ 64)). apply IZR_le. lia. }
  change (round radix2 (SpecFloat.fexp prec emax) (round_mode mode_NE)) with rnd in H.
  rewrite Rlt_bool_true in H by (apply (lt_emax _ 64); [lia | exact Hb]).
  destruct H as (H1 & H2 & _). split; assumption.
Qed.

Lemma repr_mul x y a b e : repr x a -> repr y b -> (e < 1024)%Z ->
  0 <= rnd (a * b) <= bpow radix2 e -> repr (x * y)%float (rnd (a * b)).
Proof.
  intros [Fx Rx] [Fy Ry] He Hb. unfold repr. rewrite mul_equiv.
  pose proof (Bmult_correct prec emax Hprec Hmax mode_NE (Prim2B x) (Prim2B y)) as H.
  rewrite Rx, Ry in H.
  change (round radix2 (SpecFloat.fexp prec emax) (round_mode mode_NE)) with rnd in H.
  rewrite Rlt_bool_true in H by (apply (lt_emax _ e); assumption).
  destruct H as (H1 & H2 & _). rewrite H2, Fx, Fy. split; [reflexivity | exact H1].
Qed.

Lemma repr_div x y a b e : repr x a -> repr y b -> b <> 0 -> (e < 1024)%Z ->
  0 <= rnd (a / b) <= bpow radix2 e -> repr (x / y)%float (rnd (a / b)).
Proof.
  intros [Fx Rx] [Fy Ry] Hnz He Hb. unfold repr. rewrite div_equiv.
  pose proof (Bdiv_correct prec emax Hprec Hmax mode_NE (Prim2B x) (Prim2B y)) as H.
  rewrite Ry in H. specialize (H Hnz). rewrite Rx in H.
  change (round radix2 (SpecFloat.fexp prec emax) (round_mode mode_NE)) with rnd in H.
  rewrite Rlt_bool_true in H by (apply (lt_emax _ e); assumption).
  destruct H as (H1 & H2 & _). rewrite H2, Fx. split; [reflexivity | exact H1].
Qed.

Lemma repr_ceil x a : repr x a -> f64_ceil x = Some (Zceil a).
Proof.
  intros [Fx Rx]. unfold f64_ceil. rewrite <- B2SF_Prim2B.
  destruct (Prim2B x) as [s|s| |s m e Hb]; simpl in *; try discriminate.
  - subst a. now rewrite Zceil_IZR.
  - subst a. f_equal. unfold F2R; simpl Fnum; simpl Fexp.
    destruct e as [|p|p].
    + simpl. rewrite Rmult_1_r. now rewrite Zceil_IZR.
    + simpl bpow. rewrite <- mult_IZR. rewrite Zceil_IZR. reflexivity.
    + simpl bpow. unfold Zceil. f_equal.
      replace (- (IZR (cond_Zopp s (Z.pos m)) * / IZR (Z.pow_pos 2 p)))
        with (IZR (- cond_Zopp s (Z.pos m)) / IZR (Z.pow_pos 2 p)).
      2:{ rewrite opp_IZR. unfold Rdiv. ring. }
      rewrite Zfloor_div. reflexivity.
      change (Z.pow_pos 2 p) with (2 ^ Z.pos p)%Z. lia.
Qed.

Definition NR (n : N) : R := IZR (Z.of_N n).
Definition rankR (p s k t : N) : R :=
  rnd (rnd (rnd (rnd (NR p) * rnd (NR s)) * rnd (NR k)) / rnd (NR t)).

Definition in64 (n : N) : Prop := (1 <= n <= 2 ^ 64)%N.

Lemma NR_between n : in64 n -> bpow radix2 0 <= NR n <= bpow radix2 64.
Proof.
  intros [H1 H2]. unfold NR. split.
  - change (bpow radix2 0) with (IZR 1). apply IZR_le. lia.
  - change (bpow radix2 64) with (IZR (2 ^ 64)). apply IZR_le. lia.
Qed.

Lemma rndN_between n : in64 n -> bpow radix2 0 <= rnd (NR n) <= bpow radix2 64.
Proof. intro H. apply rnd_between; try lia. now apply NR_between. Qed.

Lemma mul_between a b x y :
  bpow radix2 0 <= x <= bpow radix2 a -> bpow radix2 0 <= y <= bpow radix2 b ->
  bpow radix2 0 <= x * y <= bpow radix2 (a + b).
Proof.
  intros [H1 H2] [H3 H4]. rewrite bpow_plus. simpl bpow in *. split; nra.
Qed.

Lemma rank_repr p s k t : in64 p -> in64 s -> in64 k -> in64 t ->
  repr (rank_float p s k t) (rankR p s k t) /\
  bpow radix2 (-64) <= rankR p s k t <= bpow radix2 192.
Proof.
  intros Hp Hs Hk Ht.
  pose proof (rndN_between p Hp) as Bp. pose proof (rndN_between s Hs) as Bs.
  pose proof (rndN_between k Hk) as Bk. pose proof (rndN_between t Ht) as Bt.
  pose proof (repr_of_N p (proj2 Hp)) as Rp. pose proof (repr_of_N s (proj2 Hs)) as Rs.
  pose proof (repr_of_N k (proj2 Hk)) as Rk. pose proof (repr_of_N t (proj2 Ht)) as Rt.
  fold (NR p) in Rp. fold (NR s) in Rs. fold (NR k) in Rk. fold (NR t) in Rt.
  assert (B1 : bpow radix2 0 <= rnd (rnd (NR p) * rnd (NR s)) <= bpow radix2 128).
  { apply rnd_between; try lia. exact (mul_between 64 64 _ _ Bp Bs). }
  assert (R1 := repr_mul _ _ _ _ 128 Rp Rs ltac:(lia)
                  ltac:(split; [apply Rle_trans with (2 := proj1 B1); simpl; lra | apply B1])).
  assert (B2 : bpow radix2 0 <= rnd (rnd (rnd (NR p) * rnd (NR s)) * rnd (NR k)) <= bpow radix2 192).
  { apply rnd_between; try lia. exact (mul_between 128 64 _ _ B1 Bk). }
  assert (R2 := repr_mul _ _ _ _ 192 R1 Rk ltac:(lia)
                  ltac:(split; [apply Rle_trans with (2 := proj1 B2); simpl; lra | apply B2])).
  assert (Tpos : 0 < rnd (NR t)) by (destruct Bt as [Bt _]; simpl in Bt; lra).
  assert (B3 : bpow radix2 (-64) <= rankR p s k t <= bpow radix2 192).
  { unfold rankR. apply rnd_between; try lia.
    set (B := rnd (rnd (rnd (NR p) * rnd (NR s)) * rnd (NR k))) in *.
    set (T := rnd (NR t)) in *. destruct B2 as [B2a B2b]. destruct Bt as [Bta Btb].
    change (bpow radix2 0) with 1 in *.
    split.
    - change (bpow radix2 (-64)) with (/ bpow radix2 64).
      apply Rle_trans with (1 / T).
      + unfold Rdiv. rewrite Rmult_1_l. apply Rinv_le; assumption.
      + unfold Rdiv. apply Rmult_le_compat_r; [left; now apply Rinv_0_lt_compat | exact B2a].
    - apply Rle_trans with (B / 1).
      + unfold Rdiv. apply Rmult_le_compat_l; [lra|]. apply Rinv_le; lra.
      + unfold Rdiv. rewrite Rinv_1, Rmult_1_r. exact B2b. }
  split; [|exact B3].
  unfold rank_float. apply (repr_div _ _ _ _ 192 R2 Rt); try lia; try lra.
  split; [|apply B3]. apply Rle_trans with (2 := proj1 B3). left; apply bpow_gt_0.
Qed.

Lemma rnd_nonneg x : 0 <= x -> 0 <= rnd x.
Proof. intro H. rewrite <- (round_0 radix2 fexp64 ZnearestE). now apply rnd_le. Qed.

Lemma rankR_mono p p' s k t : in64 t -> (p <= p')%N -> rankR p s k t <= rankR p' s k t.
Proof.
  intros Ht Hle. unfold rankR.
  pose proof (rndN_between t Ht) as [Bt _]. change (bpow radix2 0) with 1 in Bt.
  assert (H0 : forall n, 0 <= rnd (NR n)).
  { intro n. apply rnd_nonneg. unfold NR. apply IZR_le. lia. }
  apply rnd_le. unfold Rdiv. apply Rmult_le_compat_r.
  { left. apply Rinv_0_lt_compat. lra. }
  apply rnd_le. apply Rmult_le_compat_r; [apply H0|].
  apply rnd_le. apply Rmult_le_compat_r; [apply H0|].
  apply rnd_le. unfold NR. apply IZR_le. lia.
Qed.

Lemma rnd_le_double x : bpow radix2 (-1022) <= x -> rnd x <= 2 * x.
Proof.
  intro Hx.
  assert (Hp : 0 < x) by (apply Rlt_le_trans with (2 := Hx); apply bpow_gt_0).
  destruct (relative_error_N_FLT_ex radix2 (-1074) 53 ltac:(lia) (fun z => negb (Z.even z)) x)
    as (eps & He & Hr).
  { rewrite Rabs_pos_eq by lra. exact Hx. }
  change (round radix2 (FLT_exp (-1074) 53) (Znearest (fun z => negb (Z.even z))) x) with (rnd x) in Hr.
  rewrite Hr.
  assert (eps <= 1).
  { apply Rle_trans with (1 := Rle_abs eps). apply Rle_trans with (1 := He).
    apply Rle_trans with (/ 2 * 1); [|lra].
    apply Rmult_le_compat_l; [lra|].
    change 1 with (bpow radix2 0). apply bpow_le. lia. }
  nra.
Qed.

Lemma rankR_upper p s k t : in64 p -> in64 s -> in64 k -> in64 t ->
  (p <= t)%N -> (s * k <= 2 ^ 32)%N -> rankR p s k t <= IZR (2 ^ 37).
Proof.
  intros Hp Hs Hk Ht Hpt Hsk.
  pose proof (rndN_between p Hp) as Bp. pose proof (rndN_between s Hs) as Bs.
  pose proof (rndN_between k Hk) as Bk. pose proof (rndN_between t Ht) as Bt.
  change (bpow radix2 0) with 1 in *.
  assert (small : bpow radix2 (-1022) <= bpow radix2 (-64)) by (apply bpow_le; lia).
  assert (one : bpow radix2 (-64) <= 1) by (change 1 with (bpow radix2 0); apply bpow_le; lia).
  set (P := rnd (NR p)) in *. set (S := rnd (NR s)) in *.
  set (K := rnd (NR k)) in *. set (T := rnd (NR t)) in *.
  assert (PT : P <= T) by (apply rnd_le; unfold NR; apply IZR_le; lia).
  assert (HS : S <= 2 * NR s).
  { apply rnd_le_double. pose proof (NR_between s Hs) as [H _]. change (bpow radix2 0) with 1 in H. lra. }
  assert (HK : K <= 2 * NR k).
  { apply rnd_le_double. pose proof (NR_between k Hk) as [H _]. change (bpow radix2 0) with 1 in H. lra. }
  assert (Hsk' : NR s * NR k <= IZR (2 ^ 32)).
  { unfold NR. rewrite <- mult_IZR. apply IZR_le. lia. }
  assert (s0 : 1 <= NR s) by (pose proof (NR_between s Hs) as [H _]; exact H).
  assert (k0 : 1 <= NR k) by (pose proof (NR_between k Hk) as [H _]; exact H).
  set (A := rnd (P * S)).
  assert (HA : A <= 2 * (P * S)) by (apply rnd_le_double; nra).
  assert (A1 : 1 <= A).
  { unfold A. change 1 with (bpow radix2 0). rewrite <- (rnd_bpow 0) by lia. apply rnd_le. simpl; nra. }
  set (B := rnd (A * K)).
  assert (HB : B <= 2 * (A * K)) by (apply rnd_le_double; nra).
  assert (B1 : 1 <= B).
  { unfold B. change 1 with (bpow radix2 0). rewrite <- (rnd_bpow 0) by lia. apply rnd_le. simpl; nra. }
  assert (Tpos : 0 < T) by lra.
  assert (HBT : bpow radix2 (-64) <= B / T).
  { change (bpow radix2 (-64)) with (/ bpow radix2 64).
    apply Rle_trans with (1 / T).
    - unfold Rdiv. rewrite Rmult_1_l. apply Rinv_le; lra.
    - unfold Rdiv. apply Rmult_le_compat_r; [left; now apply Rinv_0_lt_compat | exact B1]. }
  unfold rankR. fold P S K T. fold A. fold B.
  apply Rle_trans with (2 * (B / T)).
  { apply rnd_le_double. lra. }
  assert (SK : S * K <= 4 * (NR s * NR k)).
  { apply Rle_trans with ((2 * NR s) * (2 * NR k)); [|lra].
    apply Rmult_le_compat; lra. }
  assert (AK : A * K <= 2 * (P * S) * K) by (apply Rmult_le_compat_r; lra).
  assert (PSK : P * (S * K) <= P * (4 * (NR s * NR k))) by (apply Rmult_le_compat_l; lra).
  assert (HBb : B <= 16 * (P * (NR s * NR k))) by lra.
  assert (PT' : P * (NR s * NR k) <= T * (NR s * NR k)) by (apply Rmult_le_compat_r; nra).
  assert (B / T <= 16 * (NR s * NR k)).
  { apply Rmult_le_reg_r with T; [exact Tpos|]. unfold Rdiv. rewrite Rmult_assoc, Rinv_l by lra.
    rewrite Rmult_1_r. nra. }
  replace (IZR (2 ^ 37)) with (32 * IZR (2 ^ 32)) by (rewrite <- mult_IZR; reflexivity).
  lra.
Qed.

(** * The uint64 rank, at the level of N *)

Local Open Scope N_scope.

Lemma rank_some p s k t : in64 p -> in64 s -> in64 k -> in64 t -> p <= t -> s * k <= 2 ^ 32 ->
  exists r, f64_ceil_u64 (rank_float p s k t) = Some r /\ 1 <= r /\ r <= 2 ^ 37.
Proof.
  intros Hp Hs Hk Ht Hpt Hsk.
  destruct (rank_repr p s k t Hp Hs Hk Ht) as [Hr [Blo _]].
  pose proof (rankR_upper p s k t Hp Hs Hk Ht Hpt Hsk) as Bhi.
  pose proof (repr_ceil _ _ Hr) as Hc.
  set (z := Zceil (rankR p s k t)) in *.
  assert (Z1 : (1 <= z)%Z).
  { assert (0 < IZR z)%R.
    { apply Rlt_le_trans with (2 := Zceil_ub _). apply Rlt_le_trans with (2 := Blo). apply bpow_gt_0. }
    apply lt_IZR in H. lia. }
  assert (Z2 : (z <= 2 ^ 37)%Z) by (apply Zceil_glb; exact Bhi).
  exists (Z.to_N z). unfold f64_ceil_u64. rewrite Hc.
  replace ((0 <=? z)%Z && (z <? 2 ^ 64)%Z) with true by (symmetry; apply andb_true_intro; split; lia).
  split; [reflexivity|]. split; lia.
Qed.

Lemma rank_mono p p' s k t r r' : in64 p -> in64 p' -> in64 s -> in64 k -> in64 t -> p <= p' ->
  f64_ceil_u64 (rank_float p s k t) = Some r -> f64_ceil_u64 (rank_float p' s k t) = Some r' ->
  r <= r'.
Proof.
  intros Hp Hp' Hs Hk Ht Hle H1 H2.
  destruct (rank_repr p s k t Hp Hs Hk Ht) as [Hr _].
  destruct (rank_repr p' s k t Hp' Hs Hk Ht) as [Hr' _].
  pose proof (repr_ceil _ _ Hr) as Hc. pose proof (repr_ceil _ _ Hr') as Hc'.
  unfold f64_ceil_u64 in H1, H2. rewrite Hc in H1. rewrite Hc' in H2.
  pose proof (Zceil_le _ _ (rankR_mono p p' s k t Ht Hle)) as Hz.
  destruct ((0 <=? Zceil (rankR p s k t))%Z && (Zceil (rankR p s k t) <? 2 ^ 64)%Z) eqn:E1; [|discriminate].
  destruct ((0 <=? Zceil (rankR p' s k t))%Z && (Zceil (rankR p' s k t) <? 2 ^ 64)%Z) eqn:E2; [|discriminate].
  injection H1 as <-. injection H2 as <-. lia.
Qed.
